module verif/instr

go 1.18
