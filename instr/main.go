// Command instr rewrites the concurrency-relevant sources of Flowpack/prunner, as they are in
// the working tree right now, so that every synchronisation operation, goroutine start, timer,
// clock read, channel operation and map iteration goes through the controlled runtime
// (shim/vsched). It writes the rewritten copies and a `go build -overlay` file; /repo itself is
// never modified.
//
// Exit codes: 0 ok, 3 infrastructure failure (unsupported construct, parse or type error).
package main

import (
	"bytes"
	"encoding/json"
	"flag"
	"fmt"
	"go/ast"
	"go/build/constraint"
	"go/format"
	"go/importer"
	"go/parser"
	"go/token"
	"go/types"
	"io"
	"os"
	"os/exec"
	"path/filepath"
	"reflect"
	"sort"
	"strconv"
	"strings"
)

const shimBase = "github.com/Flowpack/prunner/zverif/"

var (
	repo         = flag.String("repo", "/repo", "repository root")
	out          = flag.String("out", "/verif/.cache/gen", "output directory")
	shimDir      = flag.String("shim", "/verif/shim", "shim sources")
	withOS       = flag.Bool("vos", true, "rewrite os -> vos in store/store.go")
	extra        = flag.String("extra-overlay", "", "JSON file with additional overlay entries (merged)")
	statusPoints = flag.Bool("statuspoints", false, "make every read / update of a stage status a scheduling point")
)

func fail(format string, a ...interface{}) {
	fmt.Fprintf(os.Stderr, "instr: "+format+"\n", a...)
	os.Exit(3)
}

type pkgSpec struct {
	dir     string // relative to repo
	imppath string
	match   func(name string) bool // which files to rewrite
	imports map[string]string      // import path -> shim name
	ranges  bool                   // rewrite range-over-map only (no go/select/channel rewriting)
}

func main() {
	flag.Parse()
	if err := os.MkdirAll(*out, 0o755); err != nil {
		fail("%v", err)
	}
	concImports := map[string]string{"sync": "vsync", "time": "vtime", "sync/atomic": "vatomic"}
	specs := []pkgSpec{
		{dir: ".", imppath: "github.com/Flowpack/prunner", match: func(string) bool { return true }, imports: concImports},
		{dir: "taskctl", imppath: "github.com/Flowpack/prunner/taskctl", match: func(n string) bool { return strings.HasPrefix(n, "scheduler") }, imports: concImports},
	}
	specs = append(specs, pkgSpec{dir: "definition", imppath: "github.com/Flowpack/prunner/definition", match: func(string) bool { return true }, imports: map[string]string{}, ranges: true})
	if *withOS {
		specs = append(specs, pkgSpec{dir: "store", imppath: "github.com/Flowpack/prunner/store", match: func(string) bool { return true }, imports: map[string]string{"os": "vos", "sync": "vsync", "time": "vtime", "sync/atomic": "vatomic"}})
	}

	exports := loadExports()
	overlay := map[string]string{}

	for _, sp := range specs {
		rewritePackage(sp, exports, overlay)
	}

	// mount the shim packages as virtual packages of the prunner module
	ents, err := os.ReadDir(*shimDir)
	if err != nil {
		fail("%v", err)
	}
	for _, e := range ents {
		if !e.IsDir() {
			continue
		}
		files, _ := filepath.Glob(filepath.Join(*shimDir, e.Name(), "*.go"))
		for _, f := range files {
			if strings.HasSuffix(f, "_test.go") {
				continue
			}
			overlay[filepath.Join(*repo, "zverif", e.Name(), filepath.Base(f))] = f
		}
	}
	if *extra != "" {
		b, err := os.ReadFile(*extra)
		if err != nil {
			fail("%v", err)
		}
		var ex struct{ Replace map[string]string }
		if err := json.Unmarshal(b, &ex); err != nil {
			fail("extra overlay: %v", err)
		}
		for k, v := range ex.Replace {
			overlay[k] = v
		}
	}

	b, _ := json.MarshalIndent(map[string]interface{}{"Replace": overlay}, "", "  ")
	if err := os.WriteFile(filepath.Join(*out, "overlay.json"), b, 0o644); err != nil {
		fail("%v", err)
	}
}

// loadExports asks the go command for the export data of every dependency
func loadExports() map[string]string {
	cmd := exec.Command("go", "list", "-export", "-deps", "-json=ImportPath,Export", "-tags", "verif", ".", "./taskctl", "./store", "./definition")
	cmd.Dir = *repo
	cmd.Stderr = os.Stderr
	outb, err := cmd.Output()
	if err != nil {
		fail("go list -export failed: %v", err)
	}
	res := map[string]string{}
	dec := json.NewDecoder(bytes.NewReader(outb))
	for {
		var p struct{ ImportPath, Export string }
		if err := dec.Decode(&p); err == io.EOF {
			break
		} else if err != nil {
			fail("decoding go list output: %v", err)
		}
		if p.Export != "" {
			res[p.ImportPath] = p.Export
		}
	}
	return res
}

func buildOK(src []byte) bool {
	// evaluate //go:build lines for linux, verif
	for _, line := range strings.Split(string(src), "\n") {
		l := strings.TrimSpace(line)
		if strings.HasPrefix(l, "package ") {
			break
		}
		if constraint.IsGoBuild(l) {
			x, err := constraint.Parse(l)
			if err != nil {
				return true
			}
			return x.Eval(func(tag string) bool {
				switch tag {
				case "verif", "linux", "unix", "amd64", "gc", "cgo":
					return true
				}
				if strings.HasPrefix(tag, "go1.") {
					return true
				}
				return false
			})
		}
	}
	return true
}

func rewritePackage(sp pkgSpec, exports map[string]string, overlay map[string]string) {
	dir := filepath.Join(*repo, sp.dir)
	ents, err := os.ReadDir(dir)
	if err != nil {
		fail("%v", err)
	}
	fset := token.NewFileSet()
	var files []*ast.File
	var names []string
	for _, e := range ents {
		n := e.Name()
		if e.IsDir() || !strings.HasSuffix(n, ".go") || strings.HasSuffix(n, "_test.go") {
			continue
		}
		if strings.HasSuffix(n, "_windows.go") || strings.HasSuffix(n, "_darwin.go") {
			continue
		}
		src, err := os.ReadFile(filepath.Join(dir, n))
		if err != nil {
			fail("%v", err)
		}
		if !buildOK(src) {
			continue
		}
		f, err := parser.ParseFile(fset, filepath.Join(dir, n), src, parser.ParseComments)
		if err != nil {
			fail("parse: %v", err)
		}
		files = append(files, f)
		names = append(names, n)
	}

	info := &types.Info{Types: map[ast.Expr]types.TypeAndValue{}}
	conf := types.Config{
		Importer: importer.ForCompiler(fset, "gc", func(path string) (io.ReadCloser, error) {
			e, ok := exports[path]
			if !ok {
				return nil, fmt.Errorf("no export data for %q", path)
			}
			return os.Open(e)
		}),
		Error: func(err error) {},
	}
	_, err = conf.Check(sp.imppath, fset, files, info)
	if err != nil {
		// A tree that does not type-check cannot be built either; report as infrastructure failure
		fail("type check of %s: %v", sp.imppath, err)
	}

	for i, f := range files {
		if !sp.match(names[i]) {
			continue
		}
		rw := &rewriter{fset: fset, info: info, file: f, imports: sp.imports, conc: sp.imports["sync"] != "" || sp.ranges, rangesOnly: sp.ranges}
		rw.run()
		// drop ordinary comments (the printer would scatter them over the moved statements); keep
		// build constraints and compiler directives
		var kept []*ast.CommentGroup
		for _, cg := range f.Comments {
			keep := cg.End() < f.Package
			for _, c := range cg.List {
				if strings.HasPrefix(c.Text, "//go:") || strings.HasPrefix(c.Text, "// +build") {
					keep = true
				}
			}
			if keep {
				kept = append(kept, cg)
			}
		}
		f.Comments = kept
		if !rw.changed {
			continue
		}
		var buf bytes.Buffer
		if err := format.Node(&buf, fset, f); err != nil {
			fail("printing %s: %v", names[i], err)
		}
		dst := filepath.Join(*out, strings.ReplaceAll(filepath.Join(sp.dir, names[i]), "/", "__"))
		if err := os.WriteFile(dst, buf.Bytes(), 0o644); err != nil {
			fail("%v", err)
		}
		overlay[filepath.Join(dir, names[i])] = dst
	}
}

type rewriter struct {
	fset       *token.FileSet
	info       *types.Info
	file       *ast.File
	imports    map[string]string
	conc       bool
	rangesOnly bool
	changed    bool
	needSched  bool
	tmp        int
}

func (rw *rewriter) pos(n ast.Node) string { return rw.fset.Position(n.Pos()).String() }

func (rw *rewriter) unsupported(n ast.Node, what string) {
	fmt.Fprintf(os.Stderr, "UNSUPPORTED-CONSTRUCT %s: %s\n", rw.pos(n), what)
	os.Exit(3)
}

func (rw *rewriter) name(prefix string) *ast.Ident {
	rw.tmp++
	return ast.NewIdent(fmt.Sprintf("verif%s%d", prefix, rw.tmp))
}

func sel(pkg, name string) ast.Expr {
	return &ast.SelectorExpr{X: ast.NewIdent(pkg), Sel: ast.NewIdent(name)}
}

func (rw *rewriter) run() {
	// imports
	for _, imp := range rw.file.Imports {
		p, _ := strconv.Unquote(imp.Path.Value)
		if shim, ok := rw.imports[p]; ok {
			local := filepath.Base(p)
			if imp.Name != nil {
				local = imp.Name.Name
			}
			imp.Name = ast.NewIdent(local)
			imp.Path.Value = strconv.Quote(shimBase + shim)
			rw.changed = true
		}
	}
	if rw.conc {
		for _, d := range rw.file.Decls {
			if fd, ok := d.(*ast.FuncDecl); ok && fd.Body != nil {
				rw.block(fd.Body)
			} else if gd, ok := d.(*ast.GenDecl); ok {
				// function literals in package-level var initialisers
				ast.Inspect(gd, func(n ast.Node) bool {
					if fl, ok := n.(*ast.FuncLit); ok {
						rw.block(fl.Body)
						return false
					}
					return true
				})
			}
		}
	}
	if *statusPoints && rw.conc && !rw.rangesOnly {
		ast.Inspect(rw.file, func(n ast.Node) bool {
			call, ok := n.(*ast.CallExpr)
			if !ok {
				return true
			}
			se, ok := call.Fun.(*ast.SelectorExpr)
			if !ok {
				return true
			}
			if id, ok := se.X.(*ast.Ident); ok && id.Name == "vsched" {
				return true
			}
			switch {
			case se.Sel.Name == "ReadStatus" && len(call.Args) == 0:
				call.Args = []ast.Expr{se.X, se}
				call.Fun = sel("vsched", "StatusRead")
				rw.needSched = true
			case se.Sel.Name == "UpdateStatus" && len(call.Args) == 1:
				call.Args = []ast.Expr{se.X, se, call.Args[0]}
				call.Fun = sel("vsched", "StatusWrite")
				rw.needSched = true
			}
			return true
		})
	}
	if rw.needSched {
		rw.changed = true
		// add the import of vsched
		spec := &ast.ImportSpec{Name: ast.NewIdent("vsched"), Path: &ast.BasicLit{Kind: token.STRING, Value: strconv.Quote(shimBase + "vsched")}}
		added := false
		for _, d := range rw.file.Decls {
			if gd, ok := d.(*ast.GenDecl); ok && gd.Tok == token.IMPORT {
				gd.Specs = append(gd.Specs, spec)
				if !gd.Lparen.IsValid() {
					gd.Lparen = gd.Pos()
					gd.Rparen = gd.End()
				}
				added = true
				break
			}
		}
		if !added {
			gd := &ast.GenDecl{Tok: token.IMPORT, Specs: []ast.Spec{spec}}
			rw.file.Decls = append([]ast.Decl{gd}, rw.file.Decls...)
		}
		rw.file.Imports = append(rw.file.Imports, spec)
	}
}

// block rewrites the statements of a block in place
func (rw *rewriter) block(b *ast.BlockStmt) {
	if b == nil {
		return
	}
	for i, st := range b.List {
		b.List[i] = rw.stmt(st)
	}
}

func (rw *rewriter) stmts(list []ast.Stmt) {
	for i, st := range list {
		list[i] = rw.stmt(st)
	}
}

// funcLits rewrites, inside an expression or simple statement, the bodies of function literals and every
// channel receive (<-ch becomes vsched.Recv(ch)); the children of n are replaced in place.
func (rw *rewriter) funcLits(n ast.Node) {
	if n == nil || reflect.ValueOf(n).IsNil() {
		return
	}
	rw.walk(n)
}

// expr returns the rewritten form of e
func (rw *rewriter) expr(e ast.Expr) ast.Expr {
	if e == nil || reflect.ValueOf(e).IsNil() {
		return e
	}
	switch x := e.(type) {
	case *ast.FuncLit:
		rw.block(x.Body)
		return x
	case *ast.UnaryExpr:
		if x.Op == token.ARROW && !rw.rangesOnly {
			x.X = rw.expr(x.X)
			rw.needSched = true
			return &ast.CallExpr{Fun: sel("vsched", "Recv"), Args: []ast.Expr{x.X}}
		}
	}
	rw.walk(e)
	return e
}

var (
	exprIface = reflect.TypeOf((*ast.Expr)(nil)).Elem()
	nodeIface = reflect.TypeOf((*ast.Node)(nil)).Elem()
)

// walk rewrites every expression reachable from n through AST fields (not through *ast.Object links)
func (rw *rewriter) walk(n ast.Node) {
	v := reflect.ValueOf(n)
	if v.Kind() == reflect.Ptr {
		if v.IsNil() {
			return
		}
		v = v.Elem()
	}
	if v.Kind() != reflect.Struct {
		return
	}
	for i := 0; i < v.NumField(); i++ {
		f := v.Field(i)
		rw.walkValue(f)
	}
}

func (rw *rewriter) walkValue(f reflect.Value) {
	switch f.Kind() {
	case reflect.Interface:
		if f.IsNil() {
			return
		}
		if f.Type() == exprIface {
			f.Set(reflect.ValueOf(rw.expr(f.Interface().(ast.Expr))))
			return
		}
		if f.Type().Implements(nodeIface) {
			if st, ok := f.Interface().(ast.Stmt); ok {
				// a statement inside an expression only occurs inside a function literal, which expr handles
				_ = st
				return
			}
			rw.walk(f.Interface().(ast.Node))
		}
	case reflect.Ptr:
		if f.IsNil() || !f.Type().Implements(nodeIface) {
			return
		}
		if _, ok := f.Interface().(*ast.BlockStmt); ok {
			return
		}
		if f.Type().Implements(exprIface) && f.CanSet() {
			// a concretely typed expression field (e.g. GoStmt.Call, KeyValueExpr inside a typed slot): children only
			rw.walk(f.Interface().(ast.Node))
			return
		}
		rw.walk(f.Interface().(ast.Node))
	case reflect.Slice:
		for j := 0; j < f.Len(); j++ {
			rw.walkValue(f.Index(j))
		}
	}
}

func (rw *rewriter) stmt(st ast.Stmt) ast.Stmt {
	switch s := st.(type) {
	case *ast.BlockStmt:
		rw.block(s)
	case *ast.IfStmt:
		if s.Init != nil {
			s.Init = rw.stmt(s.Init)
		}
		s.Cond = rw.expr(s.Cond)
		rw.block(s.Body)
		if s.Else != nil {
			s.Else = rw.stmt(s.Else)
		}
	case *ast.ForStmt:
		if s.Init != nil {
			s.Init = rw.stmt(s.Init)
		}
		s.Cond = rw.expr(s.Cond)
		if s.Post != nil {
			s.Post = rw.stmt(s.Post)
		}
		rw.block(s.Body)
	case *ast.RangeStmt:
		s.X = rw.expr(s.X)
		rw.block(s.Body)
		return rw.rangeStmt(s)
	case *ast.SwitchStmt:
		if s.Init != nil {
			s.Init = rw.stmt(s.Init)
		}
		s.Tag = rw.expr(s.Tag)
		for _, c := range s.Body.List {
			cc := c.(*ast.CaseClause)
			for i, e := range cc.List {
				cc.List[i] = rw.expr(e)
			}
			rw.stmts(cc.Body)
		}
	case *ast.TypeSwitchStmt:
		if s.Init != nil {
			s.Init = rw.stmt(s.Init)
		}
		s.Assign = rw.stmt(s.Assign)
		for _, c := range s.Body.List {
			rw.stmts(c.(*ast.CaseClause).Body)
		}
	case *ast.SelectStmt:
		if rw.rangesOnly {
			for _, c := range s.Body.List {
				rw.stmts(c.(*ast.CommClause).Body)
			}
			return s
		}
		return rw.selectStmt(s)
	case *ast.LabeledStmt:
		s.Stmt = rw.stmt(s.Stmt)
	case *ast.GoStmt:
		if rw.rangesOnly {
			rw.funcLits(s.Call)
			return s
		}
		return rw.goStmt(s)
	case *ast.DeferStmt:
		rw.funcLits(s.Call)
	case *ast.SendStmt:
		s.Value = rw.expr(s.Value)
		s.Chan = rw.expr(s.Chan)
		if rw.rangesOnly {
			return s
		}
		rw.needSched = true
		return &ast.ExprStmt{X: &ast.CallExpr{Fun: sel("vsched", "Send"), Args: []ast.Expr{s.Chan, s.Value}}}
	case *ast.ExprStmt:
		if u, ok := s.X.(*ast.UnaryExpr); ok && u.Op == token.ARROW && !rw.rangesOnly {
			rw.needSched = true
			return &ast.ExprStmt{X: &ast.CallExpr{Fun: sel("vsched", "Recv"), Args: []ast.Expr{rw.expr(u.X)}}}
		}
		s.X = rw.expr(s.X)
	case *ast.AssignStmt:
		// v := <-ch   /   v = <-ch
		if len(s.Rhs) == 1 && len(s.Lhs) == 2 {
			// v, ok := <-ch
			if u, ok := s.Rhs[0].(*ast.UnaryExpr); ok && u.Op == token.ARROW && !rw.rangesOnly {
				rw.needSched = true
				s.Rhs[0] = &ast.CallExpr{Fun: sel("vsched", "Recv2"), Args: []ast.Expr{rw.expr(u.X)}}
				for i, e := range s.Lhs {
					s.Lhs[i] = rw.expr(e)
				}
				return s
			}
		}
		for i, e := range s.Rhs {
			s.Rhs[i] = rw.expr(e)
		}
		for i, e := range s.Lhs {
			s.Lhs[i] = rw.expr(e)
		}
	case *ast.ReturnStmt:
		for i, e := range s.Results {
			s.Results[i] = rw.expr(e)
		}
	case *ast.DeclStmt:
		rw.funcLits(s.Decl)
	case *ast.IncDecStmt:
		s.X = rw.expr(s.X)
	case *ast.BranchStmt, *ast.EmptyStmt:
	default:
		rw.unsupported(st, fmt.Sprintf("statement %T", st))
	}
	return st
}

func (rw *rewriter) goStmt(s *ast.GoStmt) ast.Stmt {
	rw.needSched = true
	call := s.Call
	rw.funcLits(call)
	fn := rw.name("Fn")
	lhs := []ast.Expr{fn}
	rhs := []ast.Expr{call.Fun}
	var args []ast.Expr
	for _, a := range call.Args {
		id := rw.name("Arg")
		lhs = append(lhs, id)
		rhs = append(rhs, a)
		args = append(args, id)
	}
	inner := &ast.CallExpr{Fun: fn, Args: args, Ellipsis: call.Ellipsis}
	lit := &ast.FuncLit{
		Type: &ast.FuncType{Params: &ast.FieldList{}},
		Body: &ast.BlockStmt{List: []ast.Stmt{&ast.ExprStmt{X: inner}}},
	}
	return &ast.BlockStmt{List: []ast.Stmt{
		&ast.AssignStmt{Lhs: lhs, Tok: token.DEFINE, Rhs: rhs},
		&ast.ExprStmt{X: &ast.CallExpr{Fun: sel("vsched", "Go"), Args: []ast.Expr{lit}}},
	}}
}

func (rw *rewriter) selectStmt(s *ast.SelectStmt) ast.Stmt {
	rw.needSched = true
	hasDefault := false
	var caseExprs []ast.Expr
	var clauses []ast.Stmt
	// temporaries for a select with a case that binds the received value: the result holder and one
	// per bound channel (Go evaluates the channel expressions once, in source order, on entering the select)
	var tmpL, tmpR []ast.Expr
	var holder *ast.Ident
	idx := 0
	for _, c := range s.Body.List {
		cc := c.(*ast.CommClause)
		rw.stmts(cc.Body)
		if cc.Comm == nil {
			hasDefault = true
			// the default clause of the select becomes the default clause of the switch (vsched.Select returns -1 for it),
			// so that the switch is a terminating statement exactly when the select was one
			clauses = append(clauses, &ast.CaseClause{List: nil, Body: cc.Body})
			continue
		}
		body := cc.Body
		switch cm := cc.Comm.(type) {
		case *ast.ExprStmt:
			u, ok := cm.X.(*ast.UnaryExpr)
			if !ok || u.Op != token.ARROW {
				rw.unsupported(cm, "select case")
			}
			u.X = rw.expr(u.X)
			caseExprs = append(caseExprs, &ast.CallExpr{Fun: sel("vsched", "RecvCase"), Args: []ast.Expr{u.X}})
		case *ast.SendStmt:
			cm.Value = rw.expr(cm.Value)
			cm.Chan = rw.expr(cm.Chan)
			caseExprs = append(caseExprs, &ast.CallExpr{Fun: sel("vsched", "SendCase"), Args: []ast.Expr{cm.Chan, cm.Value}})
		case *ast.AssignStmt:
			// case v := <-ch / case v, ok := <-ch / case x = <-ch
			var u *ast.UnaryExpr
			if len(cm.Rhs) == 1 {
				if uu, ok := cm.Rhs[0].(*ast.UnaryExpr); ok && uu.Op == token.ARROW {
					u = uu
				}
			}
			if u == nil || len(cm.Lhs) < 1 || len(cm.Lhs) > 2 {
				rw.unsupported(cc.Comm, "select case")
			}
			if holder == nil {
				holder = rw.name("Sel")
				tmpL = append(tmpL, holder)
				tmpR = append(tmpR, &ast.CallExpr{Fun: sel("vsched", "NewSel")})
			}
			ch := rw.name("Ch")
			tmpL = append(tmpL, ch)
			tmpR = append(tmpR, rw.expr(u.X))
			caseExprs = append(caseExprs, &ast.CallExpr{Fun: sel("vsched", "RecvCase"), Args: []ast.Expr{ch}})
			fn := "Got"
			if len(cm.Lhs) == 2 {
				fn = "Got2"
			}
			for i, e := range cm.Lhs {
				cm.Lhs[i] = rw.expr(e)
			}
			bind := &ast.AssignStmt{Lhs: cm.Lhs, Tok: cm.Tok, Rhs: []ast.Expr{&ast.CallExpr{Fun: sel("vsched", fn), Args: []ast.Expr{holder, ch}}}}
			body = append([]ast.Stmt{bind}, body...)
		default:
			rw.unsupported(cc.Comm, "select case")
		}
		clauses = append(clauses, &ast.CaseClause{List: []ast.Expr{&ast.BasicLit{Kind: token.INT, Value: strconv.Itoa(idx)}}, Body: body})
		idx++
	}
	hd := "false"
	if hasDefault {
		hd = "true"
	} else {
		clauses = append(clauses, &ast.CaseClause{List: nil, Body: []ast.Stmt{&ast.ExprStmt{X: &ast.CallExpr{Fun: ast.NewIdent("panic"), Args: []ast.Expr{&ast.BasicLit{Kind: token.STRING, Value: strconv.Quote("vsched: select returned no case")}}}}}})
	}
	if holder == nil {
		args := append([]ast.Expr{ast.NewIdent(hd)}, caseExprs...)
		return &ast.SwitchStmt{
			Tag:  &ast.CallExpr{Fun: sel("vsched", "Select"), Args: args},
			Body: &ast.BlockStmt{List: clauses},
		}
	}
	args := append([]ast.Expr{holder, ast.NewIdent(hd)}, caseExprs...)
	return &ast.SwitchStmt{
		Init: &ast.AssignStmt{Lhs: tmpL, Tok: token.DEFINE, Rhs: tmpR},
		Tag:  &ast.CallExpr{Fun: sel("vsched", "SelectR"), Args: args},
		Body: &ast.BlockStmt{List: clauses},
	}
}

// rangeChan rewrites `for v := range ch { body }` into a loop over vsched.Recv2
func (rw *rewriter) rangeChan(s *ast.RangeStmt) ast.Stmt {
	rw.needSched = true
	ch, v, ok := rw.name("Ch"), rw.name("Val"), rw.name("Ok")
	pre := []ast.Stmt{
		&ast.AssignStmt{Lhs: []ast.Expr{v, ok}, Tok: token.DEFINE, Rhs: []ast.Expr{&ast.CallExpr{Fun: sel("vsched", "Recv2"), Args: []ast.Expr{ch}}}},
		&ast.IfStmt{Cond: &ast.UnaryExpr{Op: token.NOT, X: ok}, Body: &ast.BlockStmt{List: []ast.Stmt{&ast.BranchStmt{Tok: token.BREAK}}}},
	}
	if id, isId := s.Key.(*ast.Ident); s.Key != nil && !(isId && id.Name == "_") {
		pre = append(pre, &ast.AssignStmt{Lhs: []ast.Expr{s.Key}, Tok: s.Tok, Rhs: []ast.Expr{v}})
	} else {
		pre = append(pre, &ast.AssignStmt{Lhs: []ast.Expr{ast.NewIdent("_")}, Tok: token.ASSIGN, Rhs: []ast.Expr{v}})
	}
	return &ast.ForStmt{
		Init: &ast.AssignStmt{Lhs: []ast.Expr{ch}, Tok: token.DEFINE, Rhs: []ast.Expr{s.X}},
		Body: &ast.BlockStmt{List: append(pre, s.Body.List...)},
	}
}

func (rw *rewriter) rangeStmt(s *ast.RangeStmt) ast.Stmt {
	tv, ok := rw.info.Types[s.X]
	if !ok {
		rw.unsupported(s, "range expression without type information")
	}
	switch tv.Type.Underlying().(type) {
	case *types.Map:
	case *types.Chan:
		if rw.rangesOnly {
			return s
		}
		return rw.rangeChan(s)
	default:
		return s
	}
	rw.needSched = true
	m := rw.name("Map")
	k := rw.name("Key")
	var pre []ast.Stmt
	isBlank := func(e ast.Expr) bool {
		if e == nil {
			return true
		}
		id, ok := e.(*ast.Ident)
		return ok && id.Name == "_"
	}
	if !isBlank(s.Key) {
		pre = append(pre, &ast.AssignStmt{Lhs: []ast.Expr{s.Key}, Tok: s.Tok, Rhs: []ast.Expr{k}})
	}
	okid := rw.name("Ok")
	if !isBlank(s.Value) {
		// value and presence: entries deleted during the iteration are not produced (Go semantics)
		if s.Tok == token.DEFINE {
			pre = append(pre, &ast.AssignStmt{Lhs: []ast.Expr{s.Value, okid}, Tok: token.DEFINE, Rhs: []ast.Expr{&ast.IndexExpr{X: m, Index: k}}})
		} else {
			pre = append(pre,
				&ast.DeclStmt{Decl: &ast.GenDecl{Tok: token.VAR, Specs: []ast.Spec{&ast.ValueSpec{Names: []*ast.Ident{okid}, Type: ast.NewIdent("bool")}}}},
				&ast.AssignStmt{Lhs: []ast.Expr{s.Value, okid}, Tok: token.ASSIGN, Rhs: []ast.Expr{&ast.IndexExpr{X: m, Index: k}}})
		}
	} else {
		pre = append(pre, &ast.AssignStmt{Lhs: []ast.Expr{ast.NewIdent("_"), okid}, Tok: token.DEFINE, Rhs: []ast.Expr{&ast.IndexExpr{X: m, Index: k}}})
	}
	pre = append(pre, &ast.IfStmt{Cond: &ast.UnaryExpr{Op: token.NOT, X: okid}, Body: &ast.BlockStmt{List: []ast.Stmt{&ast.BranchStmt{Tok: token.CONTINUE}}}})
	body := &ast.BlockStmt{List: append(pre, s.Body.List...)}
	loop := &ast.RangeStmt{
		Key:   ast.NewIdent("_"),
		Value: k,
		Tok:   token.DEFINE,
		X:     &ast.CallExpr{Fun: sel("vsched", "Keys"), Args: []ast.Expr{m}},
		Body:  body,
	}
	return &ast.BlockStmt{List: []ast.Stmt{
		&ast.AssignStmt{Lhs: []ast.Expr{m}, Tok: token.DEFINE, Rhs: []ast.Expr{s.X}},
		loop,
	}}
}

var _ = sort.Strings
