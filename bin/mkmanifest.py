#!/usr/bin/env python3
"""Generates /verif/MANIFEST.json from the table below (single source of truth)."""
import json, subprocess

RMC_NOTE = ("Trusted base: the instrumenter (/verif/instr) and shims (/verif/shim) that put every sync/time/atomic/channel/go operation of prunner.go and "
            "taskctl/scheduler.go under the controlled scheduler; the mock task runner (conformance-checked against the real taskctl runner); "
            "atomicity of code between scheduling points (data-race freedom is C13); the blocking model of the 50ms poll loop.")

CHECKS = {
 "C04": dict(engine="RMC", category="model_checking", technique="stateless model checking of the real code: exhaustive DFS over thread interleavings under a controlled scheduler, iterative preemption bounding, happens-before-fingerprint pruning",
   text="All interleavings (up to the stated deviation bound; unbounded where the search closes) of CancelJob against a running multi-task job, a waiting job, a delayed job, a finished job, concurrent cancels and queued successors are executed on the real PipelineRunner + Scheduler; every execution is judged by a log monitor derived from the statement.",
   design="3/C04", note=RMC_NOTE),
}

X2T = "explicit-state model checking of the real code: BFS over event histories (schedule, cancel, task outcomes, clock advances, reloads) on the real PipelineRunner under a controlled scheduler and virtual clock, canonical-state deduplication with merge audit, per-transition log monitors"
for pid, text, ref in [
  ("C01", "Every event history up to the depth bound, for every configuration of the grid (concurrency x queue_limit x strategy x delay, plus reload of the limit), is executed on the real runner; an interval monitor checks the running count at every start, that every task interval lies inside the job's reported span, and the number of task-runner instances executing at once. Bounds are deepened beyond the prescribed ones while a unit has CPU allowance left (reported per unit). One unit drives the real binary through every history of three reloads of the limit (definition files + SIGUSR1) and counts running jobs through the API.", "3/C01"),
  ("C03", "From every reachable state of every configuration (incl. reload alphabets) all tasks are completed and all timers fired; a job still waiting afterwards, or an eligible job not started at a quiescent state, is a violation.", "3/C03"),
  ("C05", "At every reachable state of every configuration a schedule request is evaluated and compared with a reference decision table written from the statement; waiting-count invariants are checked in every state.", "3/C05"),
  ("C06", "Every history with up to the depth bound of waiting jobs, cancels, failures and graph errors is executed; at every start no earlier-accepted job of the pipeline may still wait.", "3/C06"),
  ("C07", "Bursts and clock advances at every spacing of the alphabet are executed under a virtual clock; start >= created + delay exactly, promptness at quiescent states, and the debounce rules of the replace strategy are checked.", "3/C07"),
  ("C15", "At every reachable state the pipeline listing is compared with the outcome of an actual schedule request issued in that state and with the running jobs; timestamp ordering is checked on every job; at every state the real server handlers (/pipelines/jobs, /job/detail) must list exactly the runner's jobs, newest first; retention configurations check that a job stays reported until retention removes it; the reported task order is checked for every DAG on up to 4 tasks.", "3/C15"),
  ("C16", "Reload events at every point of every history over an alphabet of single-aspect definition changes; what each job's task runner receives must equal the definition in force when the job was accepted; no job may be stranded or touched by a reload. An additional free-running unit drives the real binary through all 24 reload histories over three definitions (SIGUSR1) and checks the tasks of jobs accepted afterwards.", "3/C16"),
]:
    CHECKS[pid] = dict(engine="RMC", category="model_checking", technique=X2T, text=text, design=ref, note=RMC_NOTE)

X1T = CHECKS["C04"]["technique"]
CHECKS["C02"] = dict(engine="RMC", category="model_checking", technique=X1T+"; plus exhaustive enumeration of all labelled task digraphs up to the size bound and explicit-state BFS over surrounding histories",
  text="Every labelled digraph on up to 3 (thorough: 4) tasks: cyclic ones must run nothing, end canceled with an error and leave neighbours alone; every DAG is run under every completion order and every schedule up to the bound with the run-once / dependencies-first monitor; the reported order is checked for every permutation of the task list and fed to the upstream cycle detector; the history BFS of C01 carries the same monitor.", design="3/C02", note=RMC_NOTE)
CHECKS["C08"] = dict(engine="RMC", category="model_checking", technique=X1T+"; exhaustive product of task DAGs x allow_failure subsets x fail-fast setting x outcome assignments x completion orders",
  text="For every DAG on up to 3 (thorough: 4) tasks, every allow_failure subset and both fail-fast settings, every assignment of success/failure and every completion order and schedule up to the bound is executed; the verdict monitor checks the six clauses of the statement on every execution.", design="3/C08", note=RMC_NOTE)
CHECKS["C13"] = dict(engine="RMC", category="model_checking", technique="stateless model checking in a race-detector build: exhaustive DFS over interleavings (preemption-bounded) with the Go race detector's happens-before analysis evaluated on every execution; scheduler hand-offs are invisible to the detector",
  text="All pairs and chosen triples of exported operations run against a finished, a running and a waiting job, a pending start timer and the persist loop; on every explored interleaving the race detector must stay silent about production code and structural invariants of the job indexes must hold at every lock release.", design="3/C13",
  note=RMC_NOTE+" The race detector only judges accesses that the scenarios perform. Hand-offs of the controlled scheduler are spins in //go:norace code; harness and shim packages are compiled without race instrumentation; reports during teardown of an execution are discarded.")

CHECKS["C11"] = dict(engine="RMC", category="model_checking", technique=X1T+"; virtual clock; recording data store",
  text="Shutdown (graceful, and forced with the context cancelled at every point) is explored from nine prefix states, alone and racing with schedule / cancel / save, up to the deviation bound; at return and at the end a monitor checks terminal jobs, no executing task, store == reported state, the admission gate, and the graceful/forced semantics; a separate scenario checks that the 3s persist loop stores every accepted change without an explicit save. An additional free-running unit sends SIGINT / SIGTERM to the real binary in three states and inspects exit, surviving processes and data.json.", design="3/C11", note=RMC_NOTE)

CHECKS["C09"] = dict(engine="CRASHFS", category="fault_enumeration", technique="exhaustive crash-point and fault enumeration on the real JsonDataStore over an intercepted file-system layer; exhaustive interleaving exploration (controlled scheduler) of two concurrent savers",
  text="For histories of 1-3 saves over four snapshot sizes the real Save runs on a real directory through a recording os shim; at every completed call and at cut points inside every write the directory is inspected as a restarted process would see it: data.json absent (only before the first save) or loadable and equal to a snapshot it may hold then. Each call of a further save is made to fail once. Two concurrent savers are run under every interleaving of their calls.", design="3/C09",
  note="Fault model: process death after any completed call or write prefix; no power-loss reordering. store/store.go is rebuilt with os -> vos by the instrumenter from the current tree.")

CHECKS["C10"] = dict(engine="RMC", category="model_checking", technique=X2T+"; restart oracle at every state on a real JSON store; exhaustive codec sweep over JSON values of depth <= 2",
  text="At every distinct state of the history BFS (conc 1/2 x plain / replace+delay x one task / chain) the live runner is saved to a real JsonDataStore in a temp directory and a second runner is started from it; reports read through the real server handlers before and after must satisfy the statement (terminal jobs, no ghost capacity, same job set, identical finished jobs). All JSON values of nesting depth <= 2 over 16 atoms go through the real schedule handler, a save and a restart.", design="3/C10", note=RMC_NOTE)
CHECKS["C12"] = dict(engine="RMC", category="model_checking", technique=X2T+"; retention oracle and log-directory comparison at every save event; real FileOutputStore",
  text="Histories of schedule / outcome / cancel / clock advance / pipeline removal / save events over two pipelines for retention_count {0,1,2} x retention_period {0,1h}, also starting from jobs loaded from an earlier run; after every save a reference retention model and the agreement of API, store and log directories (hashes of kept logs) are checked.", design="3/C12", note=RMC_NOTE)
CHECKS["C14"] = dict(engine="HTTPX", category="model_checking", technique="exhaustive enumeration of a finite input product (routes walked from the router x methods x credential classes x transports x profiling x request history) against the real handler, state-unchanged oracle",
  text="Every route and method registered in the real chi router (walked, so new routes are included) is requested with 14 classes of invalid credentials over header, cookie and both, with profiling on and off, on a fresh server and after a legitimate request via header or cookie: status must be 401, the body must reveal nothing, and the state of a live runner with a running job must be unchanged; unregistered method/slash variants must neither succeed nor act; a valid token is the vacuity control. A race-build unit serves requests with and without a valid token at the same time (4 credential classes x 2 transports against 3 legitimate clients): every unauthorized request is answered 401, the job count equals the accepted legitimate requests, and the race detector reports state shared between requests.", design="3/C14",
  note="Exhaustive over the stated finite product; served in-process through the http.Handler; JWT library clock not controlled (expiry classes use +-1h).")
CHECKS["C17"] = dict(engine="DEFX", category="model_checking", technique="bounded exhaustive input enumeration: validation grid rendered to YAML and loaded under every map iteration order, file-set layouts, and all ordered pairs of per-kind value grids for every struct field discovered by reflection, against a reference validator / reference equality",
  text="1024 definitions (concurrency x queue_limit x start_delay x strategy x depends_on) are rendered to YAML and loaded under every permutation of map iteration order: load fails iff the reference validator says invalid, otherwise the result equals what was written (default concurrency 1); file layouts and duplicate names; Equals is compared with reference equality for every field (by reflection; unknown kinds abort) over all ordered pairs of a value grid. Additional free-running units rewrite the definition file of the real binary with every single-field edit of the same grids and check that the reload (SIGUSR1) classifies it exactly as changed / unchanged / invalid.", design="3/C17",
  note="Bounded by the value grids. Map iteration order inside the definition package is owned through the instrumenter's range-over-map rewrite.")

PROCX_NOTE = "Real processes: the kernel / Go runtime schedule is not owned by the checker; exhaustive only over the stated input grammar. The runner is built exactly like app.go's closure."
CHECKS["C18"] = dict(engine="PROCX", category="exploration", technique="exhaustive enumeration of an input grammar (level subsets x value classes, variable maps, job pairs) executed on the real TaskRunner with real processes; expected bytes computed by a reference precedence model; the OS schedule is not controlled",
  text="Every assignment of a variable to the subsets of {process, pipeline, task} x ten value classes, observed both as the interpreter expands it and as a child process receives it, in two concurrent jobs with different values and in tasks with / without task-level env; template rendering per job; the reserved variable is refused.", design="3/C18", note=PROCX_NOTE)
CHECKS["C19"] = dict(engine="PROCX", category="exploration", technique="exhaustive enumeration of an output grammar (stream x size x newline x producer, multi-command tasks, task names, concurrent job pairs) on real processes with the real FileOutputStore and the real /job/logs handler; byte-exact oracle; the OS schedule is not controlled",
  text="Every output shape of the grammar is produced by builtins and by exec'd commands in jobs that each run twice concurrently with identical task names; the store reader and the log API must return exactly the generated bytes per job, task and stream; an unknown task is refused, also when the requested name is a decoration (path elements, case, blanks, extensions, another job's directory) of a task the job has. A race-build unit starts 12 jobs x 4 parallel tasks at the same moment on one file store, four times, with the same byte-exact oracle.", design="3/C19", note=PROCX_NOTE)
CHECKS["C20"] = dict(engine="PROCX", category="exploration", technique="exhaustive enumeration of a process-tree grammar x cancel instants x cancel modes on real processes; /proc scan for a per-run environment marker after the job is reported finished; the OS schedule is not controlled",
  text="For every process-tree shape of the grammar (interpreter-level forms x child shell scripts incl. background jobs, pipelines, subshells, interrupt-ignoring children, nesting, helpers daemonised by an earlier command) the job is cancelled (CancelJob at two instants, forced Shutdown); once it is reported finished no process carrying its marker may be alive after kill timeout + allowance; a bystander job's process must survive.", design="3/C20", note=PROCX_NOTE)

PLANNED = {}
props = [json.loads(l) for l in open('/verif/properties.jsonl')]
hooks = subprocess.run(['git','-C','/repo','log','--format=%h %s','--grep=^verif hook'],capture_output=True,text=True).stdout.strip().splitlines()
m = {
 "version": 1,
 "setup_cmd": "bin/setup",
 "hooks": {
   "guard": "verif",
   "enable": "go build -tags verif -overlay /verif/.cache/gen/overlay.json (overlay generated by /verif/instr from the current /repo working tree; see bin/build)",
   "baseline_off_cmd": "cd /repo && GOFLAGS=-mod=mod GOPROXY=off GOSUMDB=off GOTOOLCHAIN=local go test -json -vet=off -count=1 -timeout 25m ./...",
   "source_commits": [h.split()[0] for h in hooks],
   "add_only": True,
 },
 "engines": [
   {"name": "APPX", "path": "engine/appx.go", "serves_properties": ["C01", "C11", "C14", "C16", "C17", "C18"], "kind_free_text": "the real prunner binary driven over exhaustive reload histories (tasks, limits, environment) / single-field edits (SIGUSR1, log-line oracle), its HTTP surface and shutdown signals; schedule not owned"},
   {"name": "PROCX", "path": "engine/procx.go", "serves_properties": ["C02", "C08", "C13", "C14", "C18", "C19", "C20"], "kind_free_text": "grammar enumeration on the real TaskRunner with real processes (schedule not owned); free-running race-build units (task runner, HTTP handlers, restart path, concurrent writers)"},
   {"name": "HTTPX", "path": "engine/httpx.go", "serves_properties": ["C14"], "kind_free_text": "finite-product enumeration against the real HTTP handler"},
   {"name": "DEFX", "path": "engine/defx.go", "serves_properties": ["C17"], "kind_free_text": "bounded exhaustive inputs for loader / validator / Equals"},
   {"name": "CRASHFS", "path": "engine/crashfs.go", "serves_properties": ["C09"], "kind_free_text": "crash-point / fault enumeration over shim/vos"},
   {"name": "RMC", "path": "engine/", "serves_properties": sorted(k for k,v in CHECKS.items() if v["engine"]=="RMC"),
    "kind_free_text": "model checker for the real runner: AST instrumenter + cooperative scheduler shims (shim/), stateless DFS over schedules (X1) and explicit-state BFS over event histories (X2), log monitors"},
 ],
 "checks": [],
 "not_applicable": [],
 "notes": "bin/check <ID> rebuilds the instrumented harness (and the plain prunner binary for the APPX units) from /repo's working tree on every call. Exit 3 = infrastructure failure (never a verdict). known_findings.json lists one recorded (unrepaired) genuine defect for C01 and the repaired ones; seeded/ holds 240 confirmed property-breaking changes (six rounds) with the check results; regress/ replays the repaired defects as plain tests; DESIGN.md section 8 describes what was built.",
}
for p in props:
    pid = p["id"]
    if pid in CHECKS:
        c = CHECKS[pid]
        m["checks"].append({
          "property_id": pid,
          "quick_cmd": f"bin/check {pid} --tier quick",
          "thorough_cmd": f"bin/check {pid} --tier thorough",
          "evidence_file": f"/verif/evidence/{pid}.json",
          "replay_cmd_template": f"bin/check {pid} --replay {{path}}",
          "engine": c["engine"],
          "level_claimed": {"category": c["category"], "text": c["text"], "design_ref": c["design"]},
          "level_note": c["note"],
          "technique": c["technique"],
        })
    else:
        m["not_applicable"].append({"property_id": pid, "reason": PLANNED.get(pid, "not claimed yet: the check for this property is planned in DESIGN.md but not built at this commit")})
json.dump(m, open('/verif/MANIFEST.json','w'), indent=1)
print("checks:", [c["property_id"] for c in m["checks"]])
