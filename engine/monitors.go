package main

// monitors.go: the oracles. Every monitor is a pure function of the totally ordered event log
// of one execution (plus the final dump); none of them looks at wall-clock time.

import (
	"fmt"
	"sort"
	"strings"
	"time"
)

// Facts is what the monitors derive from a log
type Facts struct {
	Log         []Event
	Dumps       []int // indices of events that carry a dump
	Final       *Dump
	Jobs        map[int]*JobFacts
	JobOrder    []int
	HasReload   bool
	HasShutdown bool
	MaxConc     map[string]int // maximum concurrency of a pipeline over all definitions seen in dumps
}

type RunIv struct {
	Inst     int
	Task     string
	Enter    int // event index
	Exit     int // -1 = open
	EnterVT  time.Duration
	ExitKind string
}

type JobFacts struct {
	Idx             int
	Pipeline        string
	AcceptEv        int
	StartedAtAccept bool
	FirstSeen       int // first dump event index containing the job
	StartEv         int // first dump event index with Start set (-1)
	TermEv          int // first dump event index terminal (-1)
	Runs            []*RunIv
	Refused         int
	Insts           []int
	CancelCalledEv  int   // first cancel.called (-1)
	CancelApi       []int // api.call events of C(job)
	Bad             bool  // scheduled with the reserved variable
	FinalJob        *DJob
}

func buildFacts(log []Event, final *Dump) *Facts {
	f := &Facts{Log: log, Final: final, Jobs: map[int]*JobFacts{}, MaxConc: map[string]int{}}
	get := func(idx int) *JobFacts {
		j := f.Jobs[idx]
		if j == nil {
			j = &JobFacts{Idx: idx, AcceptEv: -1, FirstSeen: -1, StartEv: -1, TermEv: -1, CancelCalledEv: -1}
			f.Jobs[idx] = j
			f.JobOrder = append(f.JobOrder, idx)
		}
		return j
	}
	noteDump := func(i int, d *Dump) {
		f.Dumps = append(f.Dumps, i)
		if d.Defs != nil {
			for p, pd := range d.Defs.Pipelines {
				if pd.Concurrency > f.MaxConc[p] {
					f.MaxConc[p] = pd.Concurrency
				}
			}
		}
		for k := range d.Jobs {
			dj := &d.Jobs[k]
			j := get(dj.Idx)
			j.Pipeline = dj.Pipeline
			if j.FirstSeen < 0 {
				j.FirstSeen = i
			}
			if j.StartEv < 0 && dj.Started() {
				j.StartEv = i
			}
			if j.TermEv < 0 && dj.Terminal() {
				j.TermEv = i
			}
		}
	}
	for i, e := range log {
		if e.Dump != nil {
			noteDump(i, e.Dump)
		}
		switch e.Kind {
		case EvApiCall:
			if strings.HasPrefix(e.Detail, "C(") {
				get(e.Job).CancelApi = append(get(e.Job).CancelApi, i)
			}
			if strings.HasPrefix(e.Detail, "R(") {
				f.HasReload = true
			}
			if strings.HasPrefix(e.Detail, "Shutdown") {
				f.HasShutdown = true
			}
		case EvApiRet:
			if (strings.HasPrefix(e.Detail, "S(") || strings.HasPrefix(e.Detail, "Sbad(")) && e.Err == "" && e.Job > 0 {
				j := get(e.Job)
				j.AcceptEv = i
				j.Bad = strings.HasPrefix(e.Detail, "Sbad(")
				if p := strings.TrimSuffix(strings.SplitN(e.Detail, "(", 2)[1], ")"); j.Pipeline == "" {
					j.Pipeline = p
				}
			}
		case EvNewRunner:
			j := get(e.Job)
			j.Insts = append(j.Insts, e.Inst)
		case EvRunEnter:
			j := get(e.Job)
			j.Runs = append(j.Runs, &RunIv{Inst: e.Inst, Task: e.Task, Enter: i, Exit: -1, EnterVT: e.VT})
		case EvRunExit:
			j := get(e.Job)
			for _, r := range j.Runs {
				if r.Inst == e.Inst && r.Task == e.Task && r.Exit < 0 {
					r.Exit = i
					r.ExitKind = e.Detail
					break
				}
			}
		case EvRunRefused:
			get(e.Job).Refused++
		case EvCancelCalled:
			j := get(e.Job)
			if j.CancelCalledEv < 0 {
				j.CancelCalledEv = i
			}
		}
	}
	if final != nil {
		for k := range final.Jobs {
			dj := &final.Jobs[k]
			j := get(dj.Idx)
			j.FinalJob = dj
			j.Pipeline = dj.Pipeline
		}
	}
	sort.Ints(f.JobOrder)
	return f
}

// dumpBefore returns the latest dump strictly before event i (nil if none)
func (f *Facts) dumpBefore(i int) *Dump {
	for k := i - 1; k >= 0; k-- {
		if f.Log[k].Dump != nil {
			return f.Log[k].Dump
		}
	}
	return nil
}

// dumpAtOrAfter returns the first dump at or after event i
func (f *Facts) dumpAtOrAfter(i int) *Dump {
	for k := i; k < len(f.Log); k++ {
		if f.Log[k].Dump != nil {
			return f.Log[k].Dump
		}
	}
	return f.Final
}

func jobStr(j *DJob) string {
	if j == nil {
		return "<absent>"
	}
	d := Dump{Jobs: []DJob{*j}}
	return strings.TrimSpace(d.Short())
}

func plainSuccess(j *DJob) bool {
	if j == nil || !j.Completed || j.Canceled || j.LastError != "" {
		return false
	}
	for _, t := range j.Tasks {
		if t.Errored {
			return false
		}
	}
	return true
}

// ---------------------------------------------------------------------------------------------
// C01

func monC01(f *Facts) []Violation {
	var vs []Violation
	// (a) at every start event the number of executing jobs of the pipeline is within the limit in force
	var prev *Dump
	for _, di := range f.Dumps {
		d := f.Log[di].Dump
		started := map[string]bool{}
		for k := range d.Jobs {
			j := &d.Jobs[k]
			if !j.Started() {
				continue
			}
			was := false
			if prev != nil {
				if pj := prev.Job(j.Idx); pj != nil && pj.Started() {
					was = true
				}
			}
			if !was {
				started[j.Pipeline] = true
			}
		}
		for p := range started {
			if d.Defs == nil {
				continue
			}
			pd, ok := d.Defs.Pipelines[p]
			if !ok {
				continue
			}
			n := 0
			for k := range d.Jobs {
				if d.Jobs[k].Pipeline == p && d.Jobs[k].Running() {
					n++
				}
			}
			if n > pd.Concurrency {
				vs = append(vs, Violation{Property: "C01", Rule: "a:running-count", Norm: "running-count-exceeds-limit",
					Msg: fmt.Sprintf("after event %d a job of pipeline %s started and %d jobs execute, limit %d: %s", di, p, n, pd.Concurrency, d.Short())})
			}
		}
		prev = d
	}
	// (b) every task execution interval lies inside the span of its job
	for _, idx := range f.JobOrder {
		j := f.Jobs[idx]
		for _, r := range j.Runs {
			for _, at := range []int{r.Enter, r.Exit} {
				if at < 0 {
					continue
				}
				d := f.dumpBefore(at)
				var dj *DJob
				if d != nil {
					dj = d.Job(idx)
				}
				if dj == nil || !dj.Running() {
					what := "begins"
					if at == r.Exit {
						what = "ends"
					}
					vs = append(vs, Violation{Property: "C01", Rule: "b:task-outside-span", Norm: "task-interval-outside-job-span",
						Msg: fmt.Sprintf("task %s of job %d (runner instance %d) %s at event %d while the job is reported %s", r.Task, idx, r.Inst, what, at, jobStr(dj))})
				}
			}
		}
	}
	// (c) number of runner instances of a pipeline with an open task interval never exceeds the limit
	type open struct{ inst, n int }
	openByPipe := map[string]map[int]int{}
	for i, e := range f.Log {
		if e.Kind != EvRunEnter && e.Kind != EvRunExit {
			continue
		}
		p := f.Jobs[e.Job].Pipeline
		if openByPipe[p] == nil {
			openByPipe[p] = map[int]int{}
		}
		if e.Kind == EvRunEnter {
			openByPipe[p][e.Inst]++
			if n := len(openByPipe[p]); n > f.MaxConc[p] && f.MaxConc[p] > 0 {
				vs = append(vs, Violation{Property: "C01", Rule: "c:runner-instances", Norm: "runner-instances-exceed-limit",
					Msg: fmt.Sprintf("at event %d %d runner instances of pipeline %s execute tasks at once, limit %d", i, n, p, f.MaxConc[p])})
			}
		} else {
			openByPipe[p][e.Inst]--
			if openByPipe[p][e.Inst] <= 0 {
				delete(openByPipe[p], e.Inst)
			}
		}
	}
	return dedupV(vs)
}

// ---------------------------------------------------------------------------------------------
// C02

func exitOK(kind string) bool { return kind == "ok" || kind == "fail-allowed" }

func monC02(f *Facts) []Violation {
	var vs []Violation
	for _, idx := range f.JobOrder {
		j := f.Jobs[idx]
		seen := map[string]int{}
		for _, r := range j.Runs {
			seen[r.Task]++
			if seen[r.Task] == 2 {
				vs = append(vs, Violation{Property: "C02", Rule: "run-once", Norm: "task-executed-twice",
					Msg: fmt.Sprintf("task %s of job %d begins a second time at event %d (runner instance %d)", r.Task, idx, r.Enter, r.Inst)})
			}
		}
		if len(j.Insts) > 1 {
			vs = append(vs, Violation{Property: "C02", Rule: "start-once", Norm: "job-started-twice",
				Msg: fmt.Sprintf("job %d was handed to %d task runners (instances %v): it was started more than once", idx, len(j.Insts), j.Insts)})
		}
		// dependencies
		fj := j.FinalJob
		if fj == nil {
			continue
		}
		deps := map[string][]string{}
		for _, t := range fj.Tasks {
			deps[t.Name] = t.Deps
		}
		// the dependencies as configured in the definition the job was accepted under (the job's own copy is production
		// state: a change may have written into it)
		if j.AcceptEv >= 0 {
			if d := f.dumpBefore(j.AcceptEv + 1); d != nil && d.Defs != nil {
				if pd, ok := d.Defs.Pipelines[j.Pipeline]; ok && len(pd.Tasks) == len(fj.Tasks) {
					for tn, td := range pd.Tasks {
						deps[tn] = td.DependsOn
					}
				}
			}
		}
		// "every acyclic depends_on graph is accepted": a job that never started and ends canceled with an error although
		// its graph is acyclic and it does not carry the reserved variable was refused by the graph builder
		if isDAG(deps) && !fj.Bad && fj.Canceled && !fj.Started() && len(j.Runs) == 0 && strings.Contains(fj.LastError, "cycle") {
			vs = append(vs, Violation{Property: "C02", Rule: "dag-accepted", Norm: "acyclic-graph-rejected-as-cyclic",
				Msg: fmt.Sprintf("job %d has the acyclic graph {%s} but was refused with %q", idx, graphString(deps), fj.LastError)})
		}
		for _, r := range j.Runs {
			for _, dep := range deps[r.Task] {
				ok := false
				for _, r2 := range j.Runs {
					if r2.Task == dep && r2.Exit >= 0 && r2.Exit < r.Enter && exitOK(r2.ExitKind) {
						ok = true
					}
				}
				if !ok {
					vs = append(vs, Violation{Property: "C02", Rule: "deps-first", Norm: "task-before-dependency",
						Msg: fmt.Sprintf("task %s of job %d begins at event %d although its dependency %s has not finished successfully", r.Task, idx, r.Enter, dep)})
				}
			}
		}
		if plainSuccess(fj) {
			for _, t := range fj.Tasks {
				n, nx := 0, 0
				for _, r := range j.Runs {
					if r.Task == t.Name {
						n++
						if r.Exit >= 0 && exitOK(r.ExitKind) {
							nx++
						}
					}
				}
				if n != 1 || nx != 1 {
					vs = append(vs, Violation{Property: "C02", Rule: "success-ran-all", Norm: "success-without-running-all-tasks",
						Msg: fmt.Sprintf("job %d is reported as successfully completed but task %s began %d times and finished successfully %d times: %s", idx, t.Name, n, nx, jobStr(fj))})
				}
			}
		}
	}
	return dedupV(vs)
}

// ---------------------------------------------------------------------------------------------
// C04

func monC04(f *Facts) []Violation {
	var vs []Violation
	for i, e := range f.Log {
		if e.Kind != EvApiRet || !strings.HasPrefix(e.Detail, "C(") {
			continue
		}
		idx := e.Job
		// the cancel's own critical section ends at the last unlock dump of the same thread before i
		own := -1
		for k := i - 1; k >= 0; k-- {
			if f.Log[k].Kind == EvUnlock && f.Log[k].Thread == e.Thread {
				own = k
				break
			}
			if f.Log[k].Kind == EvApiCall && f.Log[k].Thread == e.Thread {
				break
			}
		}
		var before, after *Dump
		if own >= 0 {
			before, after = f.dumpBefore(own), f.Log[own].Dump
		} else {
			// X2: quiescent dumps around the event
			for k := i - 1; k >= 0; k-- {
				if f.Log[k].Kind == EvApiCall && f.Log[k].Thread == e.Thread {
					before = f.dumpBefore(k)
					break
				}
			}
			after = f.dumpAtOrAfter(i)
		}
		var bj, aj *DJob
		if before != nil {
			bj = before.Job(idx)
		}
		if after != nil {
			aj = after.Job(idx)
		}
		switch {
		case bj == nil:
			if e.Err != "notfound" {
				vs = append(vs, Violation{Property: "C04", Rule: "unknown-id", Norm: "cancel-unknown-id-not-reported",
					Msg: fmt.Sprintf("cancel of unknown job %d returned %q instead of not found", idx, e.Err)})
			}
		case bj.Canceled:
			if e.Err != "" {
				vs = append(vs, Violation{Property: "C04", Rule: "second-cancel", Norm: "cancel-of-canceled-job-errors",
					Msg: fmt.Sprintf("cancel of already canceled job %d returned error %q", idx, e.Err)})
			}
			if own >= 0 && jobStr(bj) != jobStr(aj) {
				vs = append(vs, Violation{Property: "C04", Rule: "second-cancel", Norm: "cancel-of-canceled-job-changes-it",
					Msg: fmt.Sprintf("cancel of already canceled job %d changed it: %s -> %s", idx, jobStr(bj), jobStr(aj))})
			}
		case bj.Completed:
			if own >= 0 && jobStr(bj) != jobStr(aj) {
				vs = append(vs, Violation{Property: "C04", Rule: "finished-unchanged", Norm: "cancel-of-finished-job-changes-it",
					Msg: fmt.Sprintf("cancel of finished job %d changed it: %s -> %s", idx, jobStr(bj), jobStr(aj))})
			}
		default:
			if e.Err != "" {
				// not acknowledged: nothing is promised
				continue
			}
			j := f.Jobs[idx]
			fj := j.FinalJob
			if !bj.Started() {
				// (i) never runs any task
				for _, r := range j.Runs {
					if r.Enter > i || own < 0 || r.Enter > own {
						vs = append(vs, Violation{Property: "C04", Rule: "i:waiting-never-runs", Norm: "canceled-waiting-job-runs",
							Msg: fmt.Sprintf("cancel of waiting job %d was acknowledged at event %d but its task %s begins at event %d", idx, i, r.Task, r.Enter)})
					}
				}
				if fj != nil && !fj.Canceled {
					vs = append(vs, Violation{Property: "C04", Rule: "i:waiting-reported-canceled", Norm: "canceled-waiting-job-not-reported-canceled",
						Msg: fmt.Sprintf("cancel of waiting job %d was acknowledged but it ends as %s", idx, jobStr(fj))})
				}
			} else {
				// (ii) running job
				if j.CancelCalledEv < 0 {
					vs = append(vs, Violation{Property: "C04", Rule: "ii:told-to-stop", Norm: "running-tasks-never-told-to-stop",
						Msg: fmt.Sprintf("cancel of running job %d was acknowledged at event %d but its task runner was never told to stop", idx, i)})
				} else {
					for _, r := range j.Runs {
						if r.Enter > j.CancelCalledEv {
							vs = append(vs, Violation{Property: "C04", Rule: "ii:no-new-task", Norm: "task-begins-after-stop",
								Msg: fmt.Sprintf("task %s of job %d begins at event %d after the stop was delivered at event %d", r.Task, idx, r.Enter, j.CancelCalledEv)})
						}
					}
				}
				if fj != nil && fj.Terminal() && !fj.Canceled {
					norm := "acknowledged-cancel-ends-not-canceled"
					if plainSuccess(fj) {
						norm = "acknowledged-cancel-ends-plain-success"
					}
					vs = append(vs, Violation{Property: "C04", Rule: "ii:ends-canceled", Norm: norm,
						Msg: fmt.Sprintf("cancel of running job %d was acknowledged at event %d (job then: %s) but it ends as %s", idx, i, jobStr(bj), jobStr(fj))})
				}
				if fj != nil && !fj.Terminal() {
					vs = append(vs, Violation{Property: "C04", Rule: "ii:ends", Norm: "acknowledged-cancel-job-never-ends",
						Msg: fmt.Sprintf("cancel of running job %d was acknowledged but after the drain it is still %s", idx, jobStr(fj))})
				}
			}
		}
	}
	return dedupV(vs)
}

// ---------------------------------------------------------------------------------------------
// C08

func monC08(f *Facts, explicitCancel bool) []Violation {
	var vs []Violation
	for _, idx := range f.JobOrder {
		j := f.Jobs[idx]
		fj := j.FinalJob
		if fj == nil {
			continue
		}
		deps := map[string][]string{}
		allow := map[string]bool{}
		for _, t := range fj.Tasks {
			deps[t.Name] = t.Deps
			allow[t.Name] = t.Allow
		}
		// as configured in the definition the job was accepted under (see monC02)
		if j.AcceptEv >= 0 {
			if d := f.dumpBefore(j.AcceptEv + 1); d != nil && d.Defs != nil {
				if pd, ok := d.Defs.Pipelines[j.Pipeline]; ok && len(pd.Tasks) == len(fj.Tasks) {
					for tn, td := range pd.Tasks {
						deps[tn] = td.DependsOn
						allow[tn] = td.AllowFailure
					}
				}
			}
		}
		var anc func(t string, seen map[string]bool)
		anc = func(t string, seen map[string]bool) {
			for _, d := range deps[t] {
				if !seen[d] {
					seen[d] = true
					anc(d, seen)
				}
			}
		}
		exitOf := map[string]*RunIv{}
		for _, r := range j.Runs {
			if exitOf[r.Task] == nil {
				exitOf[r.Task] = r
			}
		}
		hardFailed := func(t string, before int) bool {
			r := exitOf[t]
			return r != nil && r.Exit >= 0 && r.ExitKind == "fail" && !allow[t] && (before < 0 || r.Exit < before)
		}
		// (1)
		for _, r := range j.Runs {
			a := map[string]bool{}
			anc(r.Task, a)
			for t := range a {
				if hardFailed(t, r.Enter) {
					vs = append(vs, Violation{Property: "C08", Rule: "1:dependent-of-failed", Norm: "dependent-of-failed-task-runs",
						Msg: fmt.Sprintf("task %s of job %d begins at event %d although its ancestor %s failed", r.Task, idx, r.Enter, t)})
				}
			}
		}
		cont := false
		if f.Final != nil && f.Final.Defs != nil {
			if pd, ok := f.Final.Defs.Pipelines[j.Pipeline]; ok {
				cont = pd.ContinueRunningTasksAfterFailure
			}
		}
		firstFail := -1
		var firstFailTask string
		for _, r := range j.Runs {
			if r.Exit >= 0 && r.ExitKind == "fail" && !allow[r.Task] && (firstFail < 0 || r.Exit < firstFail) {
				firstFail, firstFailTask = r.Exit, r.Task
			}
		}
		anyHardFail := firstFail >= 0
		// The runner reads continue_running_tasks_after_failure from the definition in force (outside the statement), so
		// rules (2) and (3) are judged only when that flag is the same in every definition of the history - a reload
		// that changes other aspects (allow_failure of a task, scripts ...) does not suspend them.
		contStable := true
		for _, di := range f.Dumps {
			if d := f.Log[di].Dump; d != nil && d.Defs != nil {
				if pd, ok := d.Defs.Pipelines[j.Pipeline]; ok && pd.ContinueRunningTasksAfterFailure != cont {
					contStable = false
				}
			}
		}
		if !f.HasReload || contStable {
			if !cont && anyHardFail {
				// (2) other tasks running when the failure is reported are told to stop
				othersRunning := false
				for _, r := range j.Runs {
					if r.Task != firstFailTask && r.Enter < firstFail && (r.Exit < 0 || r.Exit > firstFail) {
						othersRunning = true
					}
				}
				if othersRunning && j.CancelCalledEv < 0 {
					vs = append(vs, Violation{Property: "C08", Rule: "2:fail-fast-stop", Norm: "fail-fast-does-not-stop-running-tasks",
						Msg: fmt.Sprintf("task %s of job %d failed at event %d while other tasks were running, but the task runner was never told to stop", firstFailTask, idx, firstFail)})
				}
			}
			if anyHardFail && fj.Terminal() && plainSuccess(fj) {
				vs = append(vs, Violation{Property: "C08", Rule: "2:failed-not-success", Norm: "failed-job-reported-success",
					Msg: fmt.Sprintf("task %s of job %d failed but the job ends as a plain success: %s", firstFailTask, idx, jobStr(fj))})
			}
			if cont && !explicitCancel && fj.Started() && fj.Terminal() {
				// (3) every task independent of the failure runs to its natural end
				for _, t := range fj.Tasks {
					a := map[string]bool{}
					anc(t.Name, a)
					blocked := false
					for x := range a {
						if hardFailed(x, -1) {
							blocked = true
						}
					}
					if blocked {
						continue
					}
					r := exitOf[t.Name]
					if r == nil || r.Exit < 0 || r.ExitKind == "canceled" {
						vs = append(vs, Violation{Property: "C08", Rule: "3:independent-run", Norm: "independent-task-not-run-to-end",
							Msg: fmt.Sprintf("with continue_running_tasks_after_failure, task %s of job %d does not depend on a failed task but did not run to its natural end (%v): %s", t.Name, idx, r, jobStr(fj))})
					}
				}
			}
		}
		// (4) "reported completed, not canceled and without error": the error of the job is its LastError
		if fj.Completed && !fj.Canceled && fj.LastError == "" {
			for _, t := range fj.Tasks {
				r := exitOf[t.Name]
				if r == nil || r.Exit < 0 || !exitOK(r.ExitKind) {
					vs = append(vs, Violation{Property: "C08", Rule: "4:success-sound", Norm: "success-without-all-tasks-succeeding",
						Msg: fmt.Sprintf("job %d is reported completed, not canceled, without error, but task %s did not run to success: %s", idx, t.Name, jobStr(fj))})
				}
			}
		}
		// (6)
		if !explicitCancel && !anyHardFail && fj.Started() && fj.Terminal() {
			allowedFail := false
			for _, r := range j.Runs {
				if r.ExitKind == "fail-allowed" {
					allowedFail = true
				}
			}
			if allowedFail {
				if fj.LastError != "" || fj.Canceled {
					vs = append(vs, Violation{Property: "C08", Rule: "6:allow-failure", Norm: "allow-failure-fails-job",
						Msg: fmt.Sprintf("only allow_failure tasks of job %d failed but it ends as %s", idx, jobStr(fj))})
				}
				for _, t := range fj.Tasks {
					if exitOf[t.Name] == nil {
						vs = append(vs, Violation{Property: "C08", Rule: "6:allow-failure", Norm: "allow-failure-blocks-dependents",
							Msg: fmt.Sprintf("only allow_failure tasks of job %d failed but task %s never ran: %s", idx, t.Name, jobStr(fj))})
					}
				}
			}
		}
	}
	// (5) in any dump with Completed no task is reported running
	for _, di := range f.Dumps {
		d := f.Log[di].Dump
		for k := range d.Jobs {
			if d.Jobs[k].Completed {
				for _, t := range d.Jobs[k].Tasks {
					if t.Status == "running" {
						vs = append(vs, Violation{Property: "C08", Rule: "5:completed-no-running", Norm: "completed-job-with-running-task",
							Msg: fmt.Sprintf("job %d is reported completed while task %s is reported running (event %d)", d.Jobs[k].Idx, t.Name, di)})
					}
				}
			}
		}
	}
	return dedupV(vs)
}

func dedupV(vs []Violation) []Violation {
	seen := map[string]bool{}
	var res []Violation
	for _, v := range vs {
		k := v.Property + v.Rule + v.Msg
		if !seen[k] {
			seen[k] = true
			res = append(res, v)
		}
	}
	return res
}

// ---------------------------------------------------------------------------------------------
// C05: reference admission table, literally the statement

func pipeJobs(d *Dump, p string) (running int, waiting []int) {
	for k := range d.Jobs {
		j := &d.Jobs[k]
		if j.Pipeline != p {
			continue
		}
		if j.Running() {
			running++
		}
		if j.Waiting() {
			waiting = append(waiting, j.Idx)
		}
	}
	sort.Ints(waiting)
	return
}

// refAdmission returns the expected outcome class of a schedule request in state d:
// "start", "noqueue", "replace", "queuefull", "append"
func refAdmission(d *Dump, p string) (class string, replaced int) {
	pd := d.Defs.Pipelines[p]
	running, waiting := pipeJobs(d, p)
	if running < pd.Concurrency && pd.StartDelay == 0 {
		return "start", 0
	}
	if pd.QueueLimit != nil && *pd.QueueLimit == 0 {
		return "noqueue", 0
	}
	if pd.QueueStrategy == 1 && len(waiting) > 0 {
		return "replace", waiting[len(waiting)-1]
	}
	if pd.QueueLimit != nil && len(waiting) >= *pd.QueueLimit {
		return "queuefull", 0
	}
	return "append", 0
}

func dumpJobsString(d *Dump) string {
	var sb strings.Builder
	for _, j := range d.Jobs {
		j.Stages = "" // stage statuses live in the scheduler, outside the runner lock: not part of the runner's job state
		fmt.Fprintf(&sb, "%+v\n", j)
	}
	ps := make([]string, 0)
	for p := range d.WaitLists {
		ps = append(ps, p)
	}
	sort.Strings(ps)
	for _, p := range ps {
		if len(d.WaitLists[p]) > 0 {
			fmt.Fprintf(&sb, "wl %s %v\n", p, d.WaitLists[p])
		}
	}
	return sb.String()
}

func monC05(f *Facts, pre, post *Dump, ev XEvent, newEvents []Event) []Violation {
	var vs []Violation
	// invariant: the number of waiting jobs never exceeds queue_limit (nor 1 under replace)
	if post != nil && post.Defs != nil && !f.HasReload {
		for p, pd := range post.Defs.Pipelines {
			_, waiting := pipeJobs(post, p)
			if pd.QueueLimit != nil && len(waiting) > *pd.QueueLimit {
				vs = append(vs, Violation{Property: "C05", Rule: "waiting<=limit", Norm: "waiting-exceeds-queue-limit",
					Msg: fmt.Sprintf("%d jobs of pipeline %s wait, queue_limit is %d: %s", len(waiting), p, *pd.QueueLimit, post.Short())})
			}
			if pd.QueueStrategy == 1 && len(waiting) > 1 {
				vs = append(vs, Violation{Property: "C05", Rule: "waiting<=1-replace", Norm: "waiting-exceeds-one-under-replace",
					Msg: fmt.Sprintf("%d jobs of pipeline %s wait under the replace strategy: %s", len(waiting), p, post.Short())})
			}
		}
	}
	if ev.Kind != "S" && ev.Kind != "Sbad" {
		return vs
	}
	if pre == nil || pre.Defs == nil || pre.ShuttingDown {
		return vs
	}
	if _, ok := pre.Defs.Pipelines[ev.P]; !ok {
		return vs
	}
	var ret *Event
	for i := range newEvents {
		if newEvents[i].Kind == EvApiRet {
			ret = &newEvents[i]
		}
	}
	if ret == nil {
		return vs
	}
	class, replaced := refAdmission(pre, ev.P)
	got := ret.Err
	desc := fmt.Sprintf("state before: %s; definition: conc=%d ql=%v strategy=%d delay=%v", pre.Short(), pre.Defs.Pipelines[ev.P].Concurrency, qlStr(pre.Defs.Pipelines[ev.P].QueueLimit), pre.Defs.Pipelines[ev.P].QueueStrategy, pre.Defs.Pipelines[ev.P].StartDelay)
	switch class {
	case "noqueue", "queuefull":
		if got != class {
			vs = append(vs, Violation{Property: "C05", Rule: "table", Norm: "expected-" + class + "-got-" + orAccepted(got),
				Msg: fmt.Sprintf("schedule request should be rejected (%s) but the result was %q; %s", class, orAccepted(got), desc)})
		} else if dumpJobsString(pre) != dumpJobsString(post) {
			vs = append(vs, Violation{Property: "C05", Rule: "reject-no-trace", Norm: "rejected-request-leaves-trace",
				Msg: fmt.Sprintf("a rejected schedule request changed the state:\n%s\n->\n%s", dumpJobsString(pre), dumpJobsString(post))})
		}
	default:
		if got != "" {
			vs = append(vs, Violation{Property: "C05", Rule: "table", Norm: "expected-" + class + "-got-" + got,
				Msg: fmt.Sprintf("schedule request should be accepted (%s) but was rejected with %q; %s", class, got, desc)})
			break
		}
		nj := post.Job(ret.Job)
		if nj == nil {
			vs = append(vs, Violation{Property: "C05", Rule: "table", Norm: "accepted-job-missing", Msg: "accepted job is not in the runner state"})
			break
		}
		if ev.Kind == "Sbad" {
			break
		}
		switch class {
		case "start":
			if !nj.Started() {
				vs = append(vs, Violation{Property: "C05", Rule: "table", Norm: "expected-start-got-queued",
					Msg: fmt.Sprintf("a slot is free and no delay is configured, but job %d was not started at once: %s; %s", nj.Idx, post.Short(), desc)})
			}
		case "append", "replace":
			if nj.Started() && pre.Defs.Pipelines[ev.P].StartDelay > 0 {
				vs = append(vs, Violation{Property: "C05", Rule: "table", Norm: "expected-queue-got-start",
					Msg: fmt.Sprintf("job %d should have been queued (%s) but was started: %s; %s", nj.Idx, class, post.Short(), desc)})
			} else if nj.Started() {
				// without delay: started although no slot was free
				vs = append(vs, Violation{Property: "C05", Rule: "table", Norm: "expected-queue-got-start",
					Msg: fmt.Sprintf("job %d should have been queued (%s) but was started: %s; %s", nj.Idx, class, post.Short(), desc)})
			}
			if class == "replace" {
				rj := post.Job(replaced)
				if rj == nil || !rj.Canceled {
					vs = append(vs, Violation{Property: "C05", Rule: "table", Norm: "replaced-job-not-canceled",
						Msg: fmt.Sprintf("job %d should replace the most recently queued waiting job %d, which must then be canceled: %s; %s", nj.Idx, replaced, post.Short(), desc)})
				}
				// no other waiting job may have been touched
				_, wpre := pipeJobs(pre, ev.P)
				for _, wi := range wpre {
					if wi != replaced {
						if pj := post.Job(wi); pj == nil || pj.Canceled {
							vs = append(vs, Violation{Property: "C05", Rule: "table", Norm: "wrong-job-replaced",
								Msg: fmt.Sprintf("job %d replaced waiting job %d instead of the most recently queued %d: %s", nj.Idx, wi, replaced, post.Short())})
						}
					}
				}
			} else {
				_, wpre := pipeJobs(pre, ev.P)
				for _, wi := range wpre {
					if pj := post.Job(wi); pj == nil || (pj.Canceled && !pj.Started()) {
						vs = append(vs, Violation{Property: "C05", Rule: "table", Norm: "append-cancels-waiting-job",
							Msg: fmt.Sprintf("appending job %d canceled waiting job %d: %s", nj.Idx, wi, post.Short())})
					}
				}
			}
		}
	}
	return dedupV(vs)
}

func qlStr(q *int) string {
	if q == nil {
		return "unset"
	}
	return fmt.Sprint(*q)
}

func orAccepted(s string) string {
	if s == "" {
		return "accepted"
	}
	return s
}

// ---------------------------------------------------------------------------------------------
// C06

// monQueueOrder: the wait list of a pipeline is in the order of acceptance in every reported state - a replacing
// job takes the place of the job it replaces (the newest), a cancel closes the gap, nothing else touches the order.
// This holds across reloads as well (no operation reorders the remaining queue).
func monQueueOrder(f *Facts, prop, rule, norm, what string) []Violation {
	var vs []Violation
	for _, di := range f.Dumps {
		d := f.Log[di].Dump
		if d == nil {
			continue
		}
		for p, l := range d.WaitLists {
			for i := 1; i < len(l); i++ {
				if l[i] < l[i-1] {
					vs = append(vs, Violation{Property: prop, Rule: rule, Norm: norm,
						Msg: fmt.Sprintf("%s: the wait list of pipeline %s is %v at event %d - job %d, accepted later, is ahead of job %d: %s", what, p, l, di, l[i-1], l[i], d.Short())})
					return vs
				}
			}
		}
	}
	return vs
}

func monC06(f *Facts) []Violation {
	var vs []Violation
	vs = append(vs, monQueueOrder(f, "C06", "queue-order", "wait-list-not-in-acceptance-order", "cancels, replacements, failures and restarts of other jobs never reorder the remaining queue")...)
	// "under an unchanged definition": only jobs accepted after the last reload of the history are compared
	lastReload := -1
	for i, e := range f.Log {
		if e.Kind == EvApiCall && strings.HasPrefix(e.Detail, "R(") {
			lastReload = i
		}
	}
	for _, idx := range f.JobOrder {
		j := f.Jobs[idx]
		if j.StartEv < 0 || j.AcceptEv < lastReload {
			continue
		}
		d := f.Log[j.StartEv].Dump
		// the whole queue must have been accepted under the definition in force: a waiting job from before the
		// last reload (e.g. one with a start delay the current definition does not have) is outside the statement
		mixed := false
		for k := range d.Jobs {
			o := &d.Jobs[k]
			if o.Pipeline == j.Pipeline && o.Waiting() {
				if oj := f.Jobs[o.Idx]; oj == nil || oj.AcceptEv < lastReload {
					mixed = true
				}
			}
		}
		if mixed {
			continue
		}
		for k := range d.Jobs {
			o := &d.Jobs[k]
			if o.Pipeline == j.Pipeline && o.Idx < idx && o.Waiting() {
				vs = append(vs, Violation{Property: "C06", Rule: "fifo", Norm: "job-starts-before-earlier-waiting-job",
					Msg: fmt.Sprintf("job %d started (event %d) while job %d, accepted before it, is still waiting: %s", idx, j.StartEv, o.Idx, d.Short())})
			}
		}
	}
	return dedupV(vs)
}

// ---------------------------------------------------------------------------------------------
// C07

func explicitlyCanceled(f *Facts, j *JobFacts) bool {
	return len(j.CancelApi) > 0 || f.HasShutdown || j.Bad
}

func monC07(f *Facts, now time.Duration) []Violation {
	var vs []Violation
	vs = append(vs, monQueueOrder(f, "C07", "newest-runs-last", "newer-job-queued-ahead-of-an-older-one", "a burst converges to the newest request (it is queued behind every older one, so the last run belongs to it)")...)
	latest := f.Final
	if latest == nil {
		return nil
	}
	for k := range latest.Jobs {
		dj := &latest.Jobs[k]
		j := f.Jobs[dj.Idx]
		if dj.Started() && dj.Start < dj.Created+dj.StartDelay {
			vs = append(vs, Violation{Property: "C07", Rule: "lower-bound", Norm: "job-starts-before-delay",
				Msg: fmt.Sprintf("job %d accepted at %v with start_delay %v is reported started at %v", dj.Idx, dj.Created, dj.StartDelay, dj.Start)})
		}
		for _, r := range j.Runs {
			if r.EnterVT < dj.Created+dj.StartDelay {
				vs = append(vs, Violation{Property: "C07", Rule: "lower-bound", Norm: "task-begins-before-delay",
					Msg: fmt.Sprintf("task %s of job %d (accepted at %v, start_delay %v) begins at %v", r.Task, dj.Idx, dj.Created, dj.StartDelay, r.EnterVT)})
			}
		}
		// a job that never started and was not canceled through the API never runs a task
		if dj.Canceled && !dj.Started() && len(j.Runs) > 0 {
			vs = append(vs, Violation{Property: "C07", Rule: "replaced-never-runs", Norm: "replaced-job-runs-task",
				Msg: fmt.Sprintf("job %d was canceled before it started but ran task %s", dj.Idx, j.Runs[0].Task)})
		}
	}
	if f.HasReload {
		return dedupV(vs)
	}
	// debounce under replace
	for _, di := range f.Dumps {
		d := f.Log[di].Dump
		if d.Defs == nil {
			continue
		}
		for p, pd := range d.Defs.Pipelines {
			if pd.QueueStrategy != 1 {
				continue
			}
			maxIdx := 0
			for k := range d.Jobs {
				if d.Jobs[k].Pipeline == p && d.Jobs[k].Idx > maxIdx {
					maxIdx = d.Jobs[k].Idx
				}
			}
			for k := range d.Jobs {
				o := &d.Jobs[k]
				if o.Pipeline == p && o.Waiting() && o.Idx != maxIdx {
					vs = append(vs, Violation{Property: "C07", Rule: "debounce-newest", Norm: "older-job-waits-under-replace",
						Msg: fmt.Sprintf("under replace, job %d is waiting although job %d was accepted after it (event %d): %s", o.Idx, maxIdx, di, d.Short())})
				}
				// the newest job may only be canceled by an explicit request
				if o.Pipeline == p && o.Idx == maxIdx && o.Canceled && !o.Started() && !explicitlyCanceled(f, f.Jobs[o.Idx]) {
					vs = append(vs, Violation{Property: "C07", Rule: "debounce-newest", Norm: "newest-job-displaced",
						Msg: fmt.Sprintf("under replace, the most recently accepted job %d was canceled without a cancel request (event %d): %s", o.Idx, di, d.Short())})
				}
			}
		}
	}
	return dedupV(vs)
}

func monC07Drained(f *Facts, final *Dump) []Violation {
	var vs []Violation
	if f.HasReload || final.Defs == nil {
		return nil
	}
	for p := range final.Defs.Pipelines {
		maxIdx := 0
		for k := range final.Jobs {
			if final.Jobs[k].Pipeline == p && final.Jobs[k].Idx > maxIdx {
				maxIdx = final.Jobs[k].Idx
			}
		}
		if maxIdx == 0 {
			continue
		}
		j := f.Jobs[maxIdx]
		if len(j.Runs) == 0 && !explicitlyCanceled(f, j) {
			vs = append(vs, Violation{Property: "C07", Rule: "newest-eventually-runs", Norm: "newest-job-never-runs",
				Msg: fmt.Sprintf("the most recently accepted job %d of pipeline %s never ran although all tasks finished and all timers fired: %s", maxIdx, p, final.Short())})
		}
	}
	return vs
}

// monPrompt: at a quiescent state nothing more happens without a new external event, so a job
// that is eligible to start there has missed every bound.
func monPrompt(f *Facts, post *Dump, now time.Duration, c03, c07 bool) []Violation {
	var vs []Violation
	if f.HasReload || post == nil || post.Defs == nil || post.ShuttingDown {
		return nil
	}
	for p, pd := range post.Defs.Pipelines {
		running, waiting := pipeJobs(post, p)
		if running >= pd.Concurrency || len(waiting) == 0 {
			continue
		}
		o := post.Job(waiting[0])
		// eligible: the delay has passed by more than the clock granularity, or it has passed and the job's timer has
		// already fired (nothing is pending that would start it later)
		if now >= o.Created+o.StartDelay+time.Millisecond || (!o.HasTimer && now >= o.Created+o.StartDelay) {
			msg := fmt.Sprintf("pipeline %s has a free slot (%d of %d executing) and its longest-waiting job %d (accepted at %v, start_delay %v) has waited long enough at %v, but it is not started and nothing is pending that would start it: %s", p, running, pd.Concurrency, o.Idx, o.Created, o.StartDelay, now, post.Short())
			if c03 {
				vs = append(vs, Violation{Property: "C03", Rule: "prompt", Norm: "eligible-job-not-started", Msg: msg})
			}
			if c07 && o.StartDelay > 0 {
				vs = append(vs, Violation{Property: "C07", Rule: "prompt", Norm: "eligible-delayed-job-not-started", Msg: msg})
			}
		}
	}
	return vs
}

// monStranded: after the drain every accepted job of a defined pipeline has started or is canceled
func monStranded(f *Facts, final *Dump, prop string) []Violation {
	var vs []Violation
	if final.Defs == nil {
		return nil
	}
	if prop == "C16" && !f.HasReload {
		return nil
	}
	if prop == "C03" {
		// "no accepted job is lost": a job that is no longer reported must have been reported finished before it went
		// (retention removes finished jobs; jobs of a pipeline that is no longer defined are purged)
		for _, idx := range f.JobOrder {
			jf := f.Jobs[idx]
			if jf.AcceptEv < 0 || final.Job(idx) != nil {
				continue
			}
			var last *DJob
			var lastDump *Dump
			for _, di := range f.Dumps {
				if d := f.Log[di].Dump; d != nil {
					if j := d.Job(idx); j != nil {
						last, lastDump = j, d
					}
				}
			}
			if last == nil || last.Terminal() || lastDump.Defs == nil {
				continue
			}
			if _, ok := lastDump.Defs.Pipelines[last.Pipeline]; !ok {
				continue
			}
			vs = append(vs, Violation{Property: prop, Rule: "lost", Norm: "accepted-job-disappears-unfinished",
				Msg: fmt.Sprintf("job %d was accepted and is no longer reported, but when it was last reported it was unfinished (%s); now: %s", idx, jobStr(last), final.Short())})
		}
	}
	for k := range final.Jobs {
		j := &final.Jobs[k]
		if _, ok := final.Defs.Pipelines[j.Pipeline]; !ok {
			continue
		}
		if j.Waiting() {
			vs = append(vs, Violation{Property: prop, Rule: "stranded", Norm: "job-waits-forever",
				Msg: fmt.Sprintf("job %d is still waiting after every task has finished and every timer has fired: %s", j.Idx, final.Short())})
		}
		if j.Running() {
			vs = append(vs, Violation{Property: prop, Rule: "stranded", Norm: "job-runs-forever",
				Msg: fmt.Sprintf("job %d is still reported running after every task has finished: %s", j.Idx, final.Short())})
		}
	}
	return vs
}

// ---------------------------------------------------------------------------------------------
// C15 (flags of the pipeline listing)

func monC15(f *Facts, pre, post *Dump, ev XEvent, newEvents []Event, listed interface{}) []Violation {
	var vs []Violation
	infos, _ := listed.([]prunnerPipelineInfo)
	if pre == nil || pre.ShuttingDown {
		return nil
	}
	for _, pi := range infos {
		running, _ := pipeJobs(pre, pi.Pipeline)
		if pi.Running != (running > 0) {
			vs = append(vs, Violation{Property: "C15", Rule: "running-flag", Norm: "running-flag-wrong",
				Msg: fmt.Sprintf("pipeline %s is listed with running=%v but %d of its jobs execute: %s", pi.Pipeline, pi.Running, running, pre.Short())})
		}
		if ev.Kind == "S" && ev.P == pi.Pipeline {
			var ret *Event
			for i := range newEvents {
				if newEvents[i].Kind == EvApiRet {
					ret = &newEvents[i]
				}
			}
			if ret != nil && pi.Schedulable != (ret.Err == "") {
				vs = append(vs, Violation{Property: "C15", Rule: "schedulable-flag", Norm: fmt.Sprintf("schedulable-%v-but-request-%s", pi.Schedulable, orAccepted(ret.Err)),
					Msg: fmt.Sprintf("pipeline %s is listed with schedulable=%v but an immediate schedule request returns %q: %s", pi.Pipeline, pi.Schedulable, orAccepted(ret.Err), pre.Short())})
			}
		}
	}
	// timestamps, task order
	if post != nil {
		for k := range post.Jobs {
			j := &post.Jobs[k]
			deps := map[string][]string{}
			pos := map[string]int{}
			for i, t := range j.Tasks {
				deps[t.Name] = t.Deps
				pos[t.Name] = i
				// task start <= task end: a job that is reported finished has no task that is still running, and a task of it
				// that has an end has a start
				if j.Completed && (t.Status == "running" || (t.HasEnd && !t.HasStart)) {
					vs = append(vs, Violation{Property: "C15", Rule: "task-times", Norm: "finished-job-reports-unfinished-task",
						Msg: fmt.Sprintf("job %d is reported completed but its task %s is reported %s (start=%v end=%v): %s", j.Idx, t.Name, t.Status, t.HasStart, t.HasEnd, jobStr(j))})
				}
			}
			if isDAG(deps) {
				for _, t := range j.Tasks {
					for _, d := range t.Deps {
						if pd, ok := pos[d]; ok && pd > pos[t.Name] {
							vs = append(vs, Violation{Property: "C15", Rule: "task-order-topological", Norm: "task-listed-before-dependency",
								Msg: fmt.Sprintf("job %d lists task %s before its dependency %s: %s", j.Idx, t.Name, d, jobStr(j))})
						}
					}
				}
			}
			if j.Started() && j.Start < j.Created {
				vs = append(vs, Violation{Property: "C15", Rule: "timestamps", Norm: "start-before-created", Msg: fmt.Sprintf("job %d: start %v < created %v", j.Idx, j.Start, j.Created)})
			}
			if j.End != nilDur && j.Started() && j.End < j.Start {
				vs = append(vs, Violation{Property: "C15", Rule: "timestamps", Norm: "end-before-start", Msg: fmt.Sprintf("job %d: end %v < start %v", j.Idx, j.End, j.Start)})
			}
			if j.End != nilDur && j.End < j.Created {
				vs = append(vs, Violation{Property: "C15", Rule: "timestamps", Norm: "end-before-created", Msg: fmt.Sprintf("job %d: end %v < created %v", j.Idx, j.End, j.Created)})
			}
		}
	}
	return dedupV(vs)
}

// ---------------------------------------------------------------------------------------------
// C16

func monC16(w *World, f *Facts) []Violation {
	var vs []Violation
	for _, idx := range f.JobOrder {
		j := f.Jobs[idx]
		if j.AcceptEv < 0 {
			continue
		}
		d := f.dumpBefore(j.AcceptEv + 1)
		// the definition in force when the request returned: the dump that ends the accepting critical section
		if d == nil || d.Defs == nil || d.Job(idx) == nil {
			continue
		}
		pd, ok := d.Defs.Pipelines[j.Pipeline]
		if !ok {
			continue
		}
		var fj *DJob
		if f.Final != nil {
			fj = f.Final.Job(idx)
		}
		if fj == nil {
			continue
		}
		if fj.StartDelay != pd.StartDelay {
			vs = append(vs, Violation{Property: "C16", Rule: "snapshot-delay", Norm: "job-delay-not-from-accept-time-definition",
				Msg: fmt.Sprintf("job %d carries start_delay %v, the definition at accept time says %v", idx, fj.StartDelay, pd.StartDelay)})
		}
		if fj.Started() && fj.Start < fj.Created+pd.StartDelay {
			vs = append(vs, Violation{Property: "C16", Rule: "snapshot-delay", Norm: "job-starts-before-its-accept-time-delay",
				Msg: fmt.Sprintf("job %d was accepted at %v under start_delay %v but started at %v", idx, fj.Created, pd.StartDelay, fj.Start)})
		}
		// task set, dependencies in the reported job
		names := map[string]bool{}
		for _, t := range fj.Tasks {
			names[t.Name] = true
			td, ok := pd.Tasks[t.Name]
			if !ok {
				vs = append(vs, Violation{Property: "C16", Rule: "snapshot-tasks", Norm: "job-has-task-not-in-accept-time-definition",
					Msg: fmt.Sprintf("job %d has task %s which the definition at accept time does not have", idx, t.Name)})
				continue
			}
			if strings.Join(t.Deps, ",") != strings.Join(td.DependsOn, ",") || strings.Join(t.Script, "\x00") != strings.Join(td.Script, "\x00") || t.Allow != td.AllowFailure {
				vs = append(vs, Violation{Property: "C16", Rule: "snapshot-tasks", Norm: "job-task-differs-from-accept-time-definition",
					Msg: fmt.Sprintf("task %s of job %d: deps=%v script=%v allow=%v, definition at accept time: deps=%v script=%v allow=%v", t.Name, idx, t.Deps, t.Script, t.Allow, td.DependsOn, td.Script, td.AllowFailure)})
			}
		}
		for n := range pd.Tasks {
			if !names[n] {
				vs = append(vs, Violation{Property: "C16", Rule: "snapshot-tasks", Norm: "job-lacks-task-of-accept-time-definition",
					Msg: fmt.Sprintf("job %d lacks task %s of the definition at accept time", idx, n)})
			}
		}
		// what the runner actually received
		for _, m := range w.Mocks {
			if m.job != idx {
				continue
			}
			if fmt.Sprint(sortedMap(m.env)) != fmt.Sprint(sortedMap(pd.Env)) {
				vs = append(vs, Violation{Property: "C16", Rule: "snapshot-env", Norm: "runner-env-not-from-accept-time-definition",
					Msg: fmt.Sprintf("the task runner of job %d was created with env %v, the definition at accept time says %v", idx, m.env, pd.Env)})
			}
			for _, st := range m.seenTasks {
				td, ok := pd.Tasks[st.Name]
				if !ok {
					vs = append(vs, Violation{Property: "C16", Rule: "snapshot-run", Norm: "runner-runs-task-not-in-accept-time-definition",
						Msg: fmt.Sprintf("job %d runs task %s which the definition at accept time does not have", idx, st.Name)})
					continue
				}
				envs := map[string]string{}
				for k, v := range st.Env {
					envs[k] = fmt.Sprint(v)
				}
				if strings.Join(st.Commands, "\x00") != strings.Join(td.Script, "\x00") || st.Allow != td.AllowFailure || fmt.Sprint(sortedMap(envs)) != fmt.Sprint(sortedMap(td.Env)) {
					vs = append(vs, Violation{Property: "C16", Rule: "snapshot-run", Norm: "runner-task-differs-from-accept-time-definition",
						Msg: fmt.Sprintf("job %d runs task %s with commands %v env %v allow=%v; definition at accept time: %v %v %v", idx, st.Name, st.Commands, envs, st.Allow, td.Script, td.Env, td.AllowFailure)})
				}
			}
		}
	}
	// reload itself changes no job
	for i, e := range f.Log {
		if e.Kind != EvApiRet || !strings.HasPrefix(e.Detail, "R(") {
			continue
		}
		var own = -1
		for k := i - 1; k >= 0; k-- {
			if f.Log[k].Kind == EvUnlock && f.Log[k].Thread == e.Thread {
				own = k
				break
			}
			if f.Log[k].Kind == EvApiCall && f.Log[k].Thread == e.Thread {
				break
			}
		}
		if own < 0 {
			continue
		}
		b, a := f.dumpBefore(own), f.Log[own].Dump
		if b != nil && dumpJobsString(b) != dumpJobsString(a) {
			vs = append(vs, Violation{Property: "C16", Rule: "reload-touches-no-job", Norm: "reload-changes-job",
				Msg: fmt.Sprintf("ReplaceDefinitions changed job state:\n%s->\n%s", dumpJobsString(b), dumpJobsString(a))})
		}
	}
	return dedupV(vs)
}

func sortedMap(m map[string]string) []string {
	var res []string
	for k, v := range m {
		res = append(res, k+"="+v)
	}
	sort.Strings(res)
	return res
}
