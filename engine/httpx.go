package main

// httpx.go (C14): exhaustive finite product routes x methods x credential classes x transports x
// profiling on/off x request history, against the real server handler and a real runner.

import (
	"bytes"
	"context"
	"crypto/rand"
	"crypto/rsa"
	"encoding/base64"
	"fmt"
	"io"
	"net/http"
	"net/http/httptest"
	"sort"
	"strings"
	"sync"
	"sync/atomic"
	"time"

	"github.com/go-chi/chi/v5"
	"github.com/go-chi/jwtauth/v5"
	"github.com/gofrs/uuid"
	"github.com/taskctl/taskctl/pkg/task"

	"github.com/Flowpack/prunner"
	"github.com/Flowpack/prunner/server"
	"github.com/Flowpack/prunner/store"
	"github.com/Flowpack/prunner/taskctl"
)

const jwtSecret = "verif-secret-0123456789abcdef"

// blockRunner is a task runner for free-running harnesses: a task runs until it is cancelled
type blockRunner struct {
	mu     sync.Mutex
	cb     func(t *task.Task)
	ctx    context.Context
	cancel context.CancelFunc
	wg     sync.WaitGroup
	events *int64
}

func newBlockRunner(events *int64) *blockRunner {
	r := &blockRunner{events: events}
	r.ctx, r.cancel = context.WithCancel(context.Background())
	return r
}
func (r *blockRunner) SetOnTaskChange(f func(t *task.Task)) { r.cb = f }
func (r *blockRunner) Run(t *task.Task) error {
	r.wg.Add(1)
	defer r.wg.Done()
	if err := r.ctx.Err(); err != nil {
		return err
	}
	atomic.AddInt64(r.events, 1)
	t.Start = time.Now()
	if r.cb != nil {
		r.cb(t)
	}
	<-r.ctx.Done()
	t.Errored = true
	t.Error = context.Canceled
	atomic.AddInt64(r.events, 1)
	if r.cb != nil {
		r.cb(t)
	}
	return t.Error
}
func (r *blockRunner) Cancel() {
	atomic.AddInt64(r.events, 1)
	r.cancel()
	r.wg.Wait()
}
func (r *blockRunner) Finish() {}

type memOutputStore struct{}

func (memOutputStore) Writer(jobID, taskName, outputName string) (io.WriteCloser, error) {
	return nopWC{}, nil
}
func (memOutputStore) Reader(jobID, taskName, outputName string) (io.ReadCloser, error) {
	return io.NopCloser(strings.NewReader("SECRET-TASK-OUTPUT-" + outputName)), nil
}
func (memOutputStore) Remove(jobID string) error { return nil }

type memStore struct {
	mu   sync.Mutex
	data *store.PersistedData
}

func (m *memStore) Load() (*store.PersistedData, error) {
	m.mu.Lock()
	defer m.mu.Unlock()
	if m.data == nil {
		return &store.PersistedData{}, nil
	}
	return m.data, nil
}
func (m *memStore) Save(d *store.PersistedData) error {
	m.mu.Lock()
	defer m.mu.Unlock()
	m.data = d
	return nil
}

type httpWorld struct {
	r       *prunner.PipelineRunner
	h       http.Handler
	routes  chi.Routes
	events  int64
	jobID   string
	cancel  context.CancelFunc
	runners []*blockRunner
}

func newHTTPWorld(profiling bool) *httpWorld {
	uuid.DefaultGenerator.(*seqGen).reset()
	hw := &httpWorld{}
	ctx, cancel := context.WithCancel(context.Background())
	hw.cancel = cancel
	defs := mkDefs(map[string]PipeCfg{"secretpipeline": {Conc: 1, QL: -1, Graph: graphOne}})
	r, err := prunner.NewPipelineRunner(ctx, defs, func(j *prunner.PipelineJob) taskctl.Runner {
		br := newBlockRunner(&hw.events)
		hw.runners = append(hw.runners, br)
		return br
	}, &memStore{}, memOutputStore{})
	if err != nil {
		panic(err)
	}
	hw.r = r
	j, err := r.ScheduleAsync("secretpipeline", prunner.ScheduleOpts{User: "secretuser"})
	if err != nil {
		panic(err)
	}
	hw.jobID = j.ID.String()
	// wait until its task is running
	for i := 0; i < 2000 && atomic.LoadInt64(&hw.events) == 0; i++ {
		time.Sleep(time.Millisecond)
	}
	noLog := func(next http.Handler) http.Handler { return next }
	if !profiling {
		// another server of the same process had profiling enabled (package-level state must not carry it over)
		_ = server.NewServer(r, memOutputStore{}, noLog, jwtauth.New("HS256", []byte(jwtSecret), nil), true)
	}
	hw.h = server.NewServer(r, memOutputStore{}, noLog, jwtauth.New("HS256", []byte(jwtSecret), nil), profiling)
	hw.routes = server.VerifRoutes(hw.h)
	return hw
}

func (hw *httpWorld) close() {
	for _, br := range hw.runners {
		br.cancel()
	}
	hw.cancel()
	c, cf := context.WithTimeout(context.Background(), 5*time.Second)
	_ = hw.r.Shutdown(c)
	cf()
}

// fingerprint of everything a request could have changed
func (hw *httpWorld) stateFP() string {
	var parts []string
	hw.r.IterateJobs(func(j *prunner.PipelineJob) {
		v := prunner.VerifJobOf(j)
		parts = append(parts, fmt.Sprintf("%s c=%v x=%v s=%v", v.ID, v.Completed, v.Canceled, v.Start != nil))
	})
	sort.Strings(parts)
	return fmt.Sprintf("%s|ev=%d", strings.Join(parts, ";"), atomic.LoadInt64(&hw.events))
}

type cred struct {
	name  string
	token string // "" = no credential at all
	none  bool
	valid bool
}

func b64(s string) string { return base64.RawURLEncoding.EncodeToString([]byte(s)) }

func credentialClasses() []cred {
	enc := func(alg string, key interface{}, claims map[string]interface{}) string {
		_, s, err := jwtauth.New(alg, key, nil).Encode(claims)
		if err != nil {
			panic(err)
		}
		return s
	}
	now := time.Now()
	base := map[string]interface{}{"sub": "attacker"}
	with := func(k string, v interface{}) map[string]interface{} {
		m := map[string]interface{}{"sub": "attacker"}
		m[k] = v
		return m
	}
	valid := enc("HS256", []byte(jwtSecret), map[string]interface{}{"sub": "alice", "exp": now.Add(time.Hour).Unix()})
	rsaKey, err := rsa.GenerateKey(rand.Reader, 2048)
	if err != nil {
		panic(err)
	}
	payload := b64(`{"sub":"attacker"}`)
	return []cred{
		{name: "none", none: true},
		{name: "empty", token: ""},
		{name: "garbage", token: "not-a-token"},
		{name: "two-segments", token: "aaaa.bbbb"},
		{name: "hs256-wrong-secret", token: enc("HS256", []byte("some-other-secret-0123456789"), base)},
		{name: "hs256-truncated-signature", token: valid[:len(valid)-6]},
		{name: "hs256-tampered-payload", token: strings.Split(valid, ".")[0] + "." + b64(`{"sub":"mallory","exp":9999999999}`) + "." + strings.Split(valid, ".")[2]},
		{name: "hs384-same-secret", token: enc("HS384", []byte(jwtSecret), base)},
		{name: "hs512-same-secret", token: enc("HS512", []byte(jwtSecret), base)},
		{name: "rs256", token: enc("RS256", rsaKey, base)},
		{name: "alg-none-unsigned", token: b64(`{"alg":"none","typ":"JWT"}`) + "." + payload + "."},
		{name: "alg-none-with-signature", token: b64(`{"alg":"none","typ":"JWT"}`) + "." + payload + "." + strings.Split(valid, ".")[2]},
		{name: "expired", token: enc("HS256", []byte(jwtSecret), with("exp", now.Add(-time.Hour).Unix()))},
		{name: "not-yet-valid", token: enc("HS256", []byte(jwtSecret), with("nbf", now.Add(time.Hour).Unix()))},
		// combinations: every claim but one is fine - a validator that stops at the first claim it looks at, or tolerates
		// clock skew on one claim by clearing the error, must still refuse these
		{name: "expired+iat-in-future", token: enc("HS256", []byte(jwtSecret), map[string]interface{}{"sub": "attacker", "exp": now.Add(-time.Hour).Unix(), "iat": now.Add(20 * time.Second).Unix()})},
		{name: "not-yet-valid+iat-in-future", token: enc("HS256", []byte(jwtSecret), map[string]interface{}{"sub": "attacker", "nbf": now.Add(time.Hour).Unix(), "exp": now.Add(2 * time.Hour).Unix(), "iat": now.Add(20 * time.Second).Unix()})},
		{name: "expired+nbf-and-iat-past", token: enc("HS256", []byte(jwtSecret), map[string]interface{}{"sub": "attacker", "exp": now.Add(-time.Hour).Unix(), "nbf": now.Add(-2 * time.Hour).Unix(), "iat": now.Add(-2 * time.Hour).Unix()})},
		{name: "expired-30s-ago", token: enc("HS256", []byte(jwtSecret), with("exp", now.Add(-30*time.Second).Unix()))},
		{name: "not-valid-for-another-30s", token: enc("HS256", []byte(jwtSecret), map[string]interface{}{"sub": "attacker", "nbf": now.Add(30 * time.Second).Unix(), "exp": now.Add(time.Hour).Unix()})},
		{name: "valid", token: valid, valid: true},
	}
}

type transport int

const (
	trHeader transport = iota
	trCookie
	trBothInvalidHeaderFirst
)

var transportNames = []string{"authorization-header", "jwt-cookie", "header+cookie(same)"}

func (hw *httpWorld) request(method, path string, c cred, tr transport) (int, string) {
	body := `{"pipeline":"secretpipeline","variables":{"a":1}}`
	q := "?id=" + hw.jobID + "&task=a"
	req := httptest.NewRequest(method, path+q, bytes.NewBufferString(body))
	req.Header.Set("Content-Type", "application/json")
	if !c.none {
		switch tr {
		case trHeader:
			req.Header.Set("Authorization", "Bearer "+c.token)
		case trCookie:
			req.AddCookie(&http.Cookie{Name: "jwt", Value: c.token})
		case trBothInvalidHeaderFirst:
			req.Header.Set("Authorization", "Bearer "+c.token)
			req.AddCookie(&http.Cookie{Name: "jwt", Value: c.token})
		}
	}
	rec := httptest.NewRecorder()
	hw.h.ServeHTTP(rec, req)
	return rec.Code, rec.Body.String()
}

func leaks(hw *httpWorld, body string) string {
	for _, s := range []string{hw.jobID, "secretpipeline", "secretuser", "SECRET-TASK-OUTPUT", "\"jobId\"", "\"jobs\"", "\"pipelines\"", "\"tasks\""} {
		if strings.Contains(body, s) {
			return s
		}
	}
	return ""
}

type walked struct {
	method, pattern, path string
	debug                 bool
}

func walkRoutes(hw *httpWorld) []walked {
	var res []walked
	if hw.routes == nil {
		panic(InfraError{"server.VerifRoutes returned nil: the handler is not the chi router any more"})
	}
	chi.Walk(hw.routes, func(method, route string, h http.Handler, mw ...func(http.Handler) http.Handler) error {
		p := strings.ReplaceAll(route, "/*", "/")
		p = strings.ReplaceAll(p, "//", "/")
		// path parameters: substitute plausible values
		for strings.Contains(p, "{") {
			i := strings.Index(p, "{")
			j := strings.Index(p[i:], "}")
			if j < 0 {
				break
			}
			p = p[:i] + hw.jobID + p[i+j+1:]
		}
		res = append(res, walked{method, route, p, strings.HasPrefix(route, "/debug")})
		return nil
	})
	sort.Slice(res, func(i, j int) bool { return res[i].pattern+res[i].method < res[j].pattern+res[j].method })
	return res
}

var allMethods = []string{"GET", "HEAD", "POST", "PUT", "PATCH", "DELETE", "OPTIONS", "CONNECT", "TRACE"}

type httpxResult struct {
	Requests, Tuples, Routes int
	Viol                     []Violation
	Samples                  []string
}

func runHTTPX(profiling bool, history string) httpxResult {
	var res httpxResult
	seen := map[string]bool{}
	addV := func(norm, msg string) {
		if seen[norm] {
			return
		}
		seen[norm] = true
		res.Viol = append(res.Viol, Violation{Property: "C14", Rule: "auth", Norm: norm, Msg: fmt.Sprintf("[profiling=%v history=%s] %s", profiling, history, msg)})
	}
	creds := credentialClasses()
	var validCred cred
	for _, c := range creds {
		if c.valid {
			validCred = c
		}
	}
	hw := newHTTPWorld(profiling)
	defer hw.close()
	routes := walkRoutes(hw)
	res.Routes = len(routes)
	registered := map[string]bool{}
	patterns := map[string]walked{}
	for _, w := range routes {
		registered[w.method+" "+w.path] = true
		patterns[w.path] = w
	}
	if !profiling {
		for _, w := range routes {
			if w.debug {
				addV("debug-route-without-profiling", fmt.Sprintf("route %s %s is registered although profiling is disabled", w.method, w.pattern))
			}
		}
		code, _ := hw.request("GET", "/debug/pprof/", cred{none: true}, trHeader)
		res.Requests++
		if code != 404 {
			addV("debug-route-without-profiling", fmt.Sprintf("GET /debug/pprof/ answers %d although profiling is disabled", code))
		}
	}
	// history: a legitimate request first
	switch history {
	case "after-valid-header":
		hw.request("GET", "/pipelines/", validCred, trHeader)
	case "after-valid-cookie":
		hw.request("GET", "/pipelines/", validCred, trCookie)
	}
	before := hw.stateFP()
	check := func(w walked, method string, c cred, tr transport, isRegistered bool) {
		code, body := hw.request(method, w.path, c, tr)
		res.Requests++
		res.Tuples++
		after := hw.stateFP()
		what := fmt.Sprintf("%s %s (pattern %s) with credential %q via %s", method, w.path, w.pattern, c.name, transportNames[tr])
		if after != before {
			addV("effect:"+w.pattern+":"+c.name, what+" changed the runner state: "+before+" -> "+after)
			before = after
		}
		if l := leaks(hw, body); l != "" {
			addV("leak:"+w.pattern+":"+c.name, what+" reveals data ("+l+"): "+head([]byte(body), 200))
		}
		if isRegistered {
			if code != 401 {
				addV("status:"+w.pattern+":"+c.name, fmt.Sprintf("%s answers %d instead of 401", what, code))
			}
		} else if code >= 200 && code < 300 {
			addV("status2xx:"+w.pattern+":"+c.name, fmt.Sprintf("%s answers %d", what, code))
		}
		if len(res.Samples) < 3 && c.name == "expired" {
			res.Samples = append(res.Samples, fmt.Sprintf("%s -> %d", what, code))
		}
	}
	for _, w := range routes {
		if w.debug {
			continue // the only exception of the statement (profiling explicitly enabled)
		}
		for _, c := range creds {
			if c.valid {
				continue
			}
			for tr := trHeader; tr <= trBothInvalidHeaderFirst; tr++ {
				if c.none && tr != trHeader {
					continue
				}
				check(w, w.method, c, tr, true)
			}
		}
	}
	// method / slash variants that the router does not register: no 2xx, no data, no effect
	for path, w := range patterns {
		if w.debug {
			continue
		}
		variants := []string{path}
		if strings.HasSuffix(path, "/") && len(path) > 1 {
			variants = append(variants, strings.TrimSuffix(path, "/"))
		} else {
			variants = append(variants, path+"/")
		}
		// paths that are not in canonical form: dot segments through the one prefix that is public when profiling is on,
		// doubled slashes - whatever the router makes of them, no 2xx, no data, no effect without a valid token
		for _, pre := range []string{"/debug/..", "/debug/x/../..", "/debug/pprof/../..", "/.", "/"} {
			variants = append(variants, pre+path)
		}
		for _, vp := range variants {
			for _, m := range allMethods {
				if registered[m+" "+vp] {
					continue
				}
				for _, c := range creds {
					if c.valid || (c.name != "none" && c.name != "garbage" && c.name != "expired" && c.name != "alg-none-unsigned") {
						continue
					}
					check(walked{m, w.pattern, vp, false}, m, c, trHeader, false)
				}
			}
		}
	}
	// positive control (vacuity guard): the valid token is not answered with 401, via header and via cookie
	for _, w := range routes {
		if w.debug {
			continue
		}
		if w.method == "POST" {
			continue // would act; covered below on a fresh world
		}
		for _, tr := range []transport{trHeader, trCookie} {
			code, _ := hw.request(w.method, w.path, validCred, tr)
			res.Requests++
			if code == 401 {
				addV("positive-control", fmt.Sprintf("%s %s with the valid token via %s answers 401: the check would be vacuous", w.method, w.path, transportNames[tr]))
			}
		}
	}
	for _, w := range routes {
		if w.debug || w.method != "POST" {
			continue
		}
		hw2 := newHTTPWorld(profiling)
		code, _ := hw2.request(w.method, w.path, validCred, trHeader)
		res.Requests++
		if code == 401 {
			addV("positive-control", fmt.Sprintf("%s %s with the valid token answers 401", w.method, w.path))
		}
		hw2.close()
	}
	return res
}

func runHTTPXUnit(u Unit) UnitResult {
	res := UnitResult{Name: u.Name, Exhaustive: true, Unbounded: true}
	combos := httpxCombos()
	c := combos[u.Index]
	r := runHTTPX(c.profiling, c.history)
	res.Execs = r.Requests
	res.States = r.Tuples
	res.Transitions = r.Requests
	res.Outcomes = r.Tuples
	res.Samples = append([]string{fmt.Sprintf("%d routes walked from the router; %d (route, method, credential, transport) tuples", r.Routes, r.Tuples)}, r.Samples...)
	res.Extra = map[string]int{"routes_walked": r.Routes, "requests": r.Requests}
	for _, v := range r.Viol {
		res.Viol = append(res.Viol, FoundViolation{Violation: v, Scenario: u.Name})
	}
	return res
}

type httpxCombo struct {
	profiling bool
	history   string
}

func httpxCombos() []httpxCombo {
	var res []httpxCombo
	for _, p := range []bool{false, true} {
		for _, h := range []string{"fresh", "after-valid-header", "after-valid-cookie"} {
			res = append(res, httpxCombo{p, h})
		}
	}
	return res
}
