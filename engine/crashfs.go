package main

// crashfs.go (C09): fault enumeration on the real JsonDataStore. store/store.go is rebuilt with
// os -> zverif/vos, a pass-through to a real temp directory that reports every completed call and
// every prefix of a write at the cut points below. At each of these instants - each one a point
// where the process can be killed - the file on disk is inspected and loaded.

import (
	"bytes"
	"crypto/sha1"
	"errors"
	"fmt"
	"os"
	"path/filepath"
	"strings"
	"syscall"
	"time"

	"github.com/Flowpack/prunner/store"
	"github.com/Flowpack/prunner/zverif/vos"
	"github.com/Flowpack/prunner/zverif/vsched"
)

func mkSnapshot(tag string, n int) *store.PersistedData {
	d := &store.PersistedData{}
	base := time.Date(2031, 5, 1, 12, 0, 0, 0, time.UTC)
	for i := 0; i < n; i++ {
		st := base.Add(time.Duration(i) * time.Second)
		en := st.Add(time.Minute)
		msg := "exit status 3"
		d.Jobs = append(d.Jobs, store.PersistedJob{
			ID: jobUUID(i + 1), Pipeline: "pipeline_" + tag, Completed: i%2 == 0, Canceled: i%3 == 0, Created: st, Start: &st, End: &en,
			Variables: map[string]interface{}{"tag": tag, "n": i, "list": []interface{}{"a", "b"}}, User: "user " + tag,
			Tasks: []store.PersistedTask{
				{Name: "build", Script: []string{"echo " + tag, "make all"}, Status: "done", Start: &st, End: &en},
				{Name: "deploy", Script: []string{"deploy \"" + tag + "\""}, DependsOn: []string{"build"}, Status: "error", Errored: true, ExitCode: 3, Error: &msg},
			},
		})
	}
	return d
}

var canonCache = map[*store.PersistedData]string{}
var canonFixed = map[*store.PersistedData]bool{}

// canon is a cheap canonical fingerprint of a snapshot (all persisted fields, in order)
func canon(d *store.PersistedData) string {
	if d == nil {
		return "<nil>"
	}
	if s, ok := canonCache[d]; ok {
		return s
	}
	var sb strings.Builder
	tm := func(t *time.Time) {
		if t == nil {
			sb.WriteString("-;")
		} else {
			fmt.Fprintf(&sb, "%d;", t.UnixNano())
		}
	}
	fmt.Fprintf(&sb, "%d jobs|", len(d.Jobs))
	for i := range d.Jobs {
		j := &d.Jobs[i]
		fmt.Fprintf(&sb, "%x %s %v %v %d ", j.ID[12:], j.Pipeline, j.Completed, j.Canceled, j.Created.UnixNano())
		tm(j.Start)
		tm(j.End)
		sb.WriteString(j.User)
		ks := make([]string, 0, len(j.Variables))
		for k := range j.Variables {
			ks = append(ks, k)
		}
		sortStrings(ks)
		for _, k := range ks {
			fmt.Fprintf(&sb, " %s=%v", k, j.Variables[k])
		}
		for _, t := range j.Tasks {
			e := ""
			if t.Error != nil {
				e = *t.Error
			}
			fmt.Fprintf(&sb, " [%s %q %v %v %s %v %d %v %q ", t.Name, t.Script, t.DependsOn, t.AllowFailure, t.Status, t.Skipped, t.ExitCode, t.Errored, e)
			tm(t.Start)
			tm(t.End)
			sb.WriteString("]")
		}
		sb.WriteString("|")
	}
	s := sb.String()
	if canonFixed[d] {
		canonCache[d] = s
	}
	return s
}

func sortStrings(xs []string) {
	for i := 1; i < len(xs); i++ {
		for j := i; j > 0 && xs[j] < xs[j-1]; j-- {
			xs[j], xs[j-1] = xs[j-1], xs[j]
		}
	}
}

type crashChecker struct {
	dir       string
	allowed   func() []string // canonical forms the file may hold right now ("" = absent allowed)
	points    int
	writeCuts int
	viol      []Violation
	name      string
	lastOp    string
	loadCache map[[20]byte]string
	statCache map[string]string
}

func writeCutPoints(n int) []int {
	// the JSON encoder flushes its buffer in many small writes; each write is cut after its first
	// byte, in the middle and before its last byte
	var res []int
	for _, c := range []int{1, n / 2, n - 1} {
		if c > 0 && c < n && (len(res) == 0 || res[len(res)-1] < c) {
			res = append(res, c)
		}
	}
	return res
}

// inspect is called at every crash point: the state of the directory right now is what a fresh
// process would find.
func (c *crashChecker) inspect(op, path string) {
	c.points++
	if op == "write-partial" {
		c.writeCuts++
	}
	c.lastOp = op + " " + filepath.Base(path)
	allowed := c.allowed()
	statKey := ""
	if st, err := os.Stat(filepath.Join(c.dir, "data.json")); err == nil {
		if sys, ok := st.Sys().(*syscall.Stat_t); ok {
			statKey = fmt.Sprintf("%d/%d/%d.%d/%d.%d", sys.Ino, sys.Size, sys.Mtim.Sec, sys.Mtim.Nsec, sys.Ctim.Sec, sys.Ctim.Nsec)
			if got, ok := c.statCache[statKey]; ok {
				// same inode, size, mtime and ctime as at an earlier inspection: same content
				c.judge(got, allowed, nil, nil)
				return
			}
		}
	}
	raw, err := os.ReadFile(filepath.Join(c.dir, "data.json"))
	absent := errors.Is(err, os.ErrNotExist)
	okAbsent := false
	for _, a := range allowed {
		if a == "" {
			okAbsent = true
		}
	}
	if absent {
		if !okAbsent {
			c.add("file-absent", fmt.Sprintf("after %s: data.json is absent although a save has returned successfully", c.lastOp))
		}
		return
	}
	// identical bytes load identically: the (expensive) load is done once per distinct content
	sum := sha1.Sum(raw)
	if c.loadCache == nil {
		c.loadCache = map[[20]byte]string{}
	}
	if c.statCache == nil {
		c.statCache = map[string]string{}
	}
	if got, ok := c.loadCache[sum]; ok {
		if statKey != "" {
			c.statCache[statKey] = got
		}
		c.judge(got, allowed, raw, nil)
		return
	}
	// a fresh store object on the same directory, plain os (what a restarted process does)
	var loaded *store.PersistedData
	var lerr error
	withPlainOS(func() {
		ds, e := store.NewJSONDataStore(c.dir)
		if e != nil {
			lerr = e
			return
		}
		loaded, lerr = ds.Load()
	})
	if lerr != nil {
		c.loadCache[sum] = "\x00error: " + lerr.Error()
		c.judge(c.loadCache[sum], allowed, raw, lerr)
		return
	}
	got := canon(loaded)
	c.loadCache[sum] = got
	if statKey != "" {
		c.statCache[statKey] = got
	}
	c.judge(got, allowed, raw, nil)
}

func (c *crashChecker) judge(got string, allowed []string, raw []byte, lerr error) {
	if strings.HasPrefix(got, "\x00error: ") {
		c.add("not-loadable", fmt.Sprintf("after %s: data.json (%d bytes, starts %q) cannot be loaded: %s", c.lastOp, len(raw), head(raw, 40), got[1:]))
		return
	}
	for _, a := range allowed {
		if a != "" && a == got {
			return
		}
	}
	c.add("not-a-saved-snapshot", fmt.Sprintf("after %s: data.json (%d bytes) loads, but to none of the snapshots it may hold at this instant", c.lastOp, len(raw)))
}

func head(b []byte, n int) string {
	if len(b) > n {
		b = b[:n]
	}
	return string(b)
}

func (c *crashChecker) add(norm, msg string) {
	for _, v := range c.viol {
		if v.Norm == norm {
			return
		}
	}
	c.viol = append(c.viol, Violation{Property: "C09", Rule: "complete-snapshot", Norm: norm, Msg: c.name + ": " + msg})
}

// withPlainOS runs f with the hooks switched off (the oracle's own file accesses are not crash points)
func withPlainOS(f func()) {
	saved := vos.H
	vos.H = nil
	defer func() { vos.H = saved }()
	if s := vsched.Cur(); s != nil {
		s.External(f)
		return
	}
	f()
}

type crashCase struct {
	Name  string
	Snaps []*store.PersistedData
	Conc  bool // two concurrent savers (snaps[0], snaps[1]) after an initial sequential save of snaps[2] if present
	Fail  bool // additionally: every call of the last save fails once
	// Symlink: data.json exists beforehand as a symbolic link to a file in another directory that holds snapshot "L"
	// (a data file kept on a shared volume); the saves then run as in the sequential cases
	Symlink bool
	// Loader: snaps[0] is saved beforehand; one thread saves snaps[1] and then snaps[2], another thread loads twice;
	// every interleaving of their file-system calls
	Loader bool
}

func crashCases(tier string) []crashCase {
	sizes := []struct {
		n string
		c int
	}{{"empty", 0}, {"one", 1}, {"sixty", 60}, {"big", 600}} // (3000 jobs made the 64 triples of the thorough tier run for more than two hours)
	if tier != "thorough" {
		sizes[3].c = 200
	}
	small := []int{0, 1, 2}
	mk := func(i int, tag string) *store.PersistedData { return mkSnapshot(tag, sizes[i].c) }
	var cs []crashCase
	for i := range sizes {
		cs = append(cs, crashCase{Name: "seq/" + sizes[i].n, Snaps: []*store.PersistedData{mk(i, "A")}, Fail: true})
	}
	for i := range sizes {
		for j := range sizes {
			cs = append(cs, crashCase{Name: "seq/" + sizes[i].n + "," + sizes[j].n, Snaps: []*store.PersistedData{mk(i, "A"), mk(j, "B")}, Fail: i < 3 && j < 3})
		}
	}
	triples := [][3]int{{1, 2, 1}, {2, 1, 0}, {3, 1, 2}, {0, 3, 1}}
	if tier == "thorough" {
		triples = nil
		for i := range sizes {
			for j := range sizes {
				for k := range sizes {
					triples = append(triples, [3]int{i, j, k})
				}
			}
		}
	}
	for _, t := range triples {
		cs = append(cs, crashCase{Name: "seq/" + sizes[t[0]].n + "," + sizes[t[1]].n + "," + sizes[t[2]].n, Snaps: []*store.PersistedData{mk(t[0], "A"), mk(t[1], "B"), mk(t[2], "C")}})
	}
	for _, p := range [][2]int{{1, 2}, {2, 2}, {1, 1}, {0, 2}, {0, 1}} {
		a, b := mkSnapshot("A", small[p[0]]), mkSnapshot("B", small[p[1]])
		cs = append(cs, crashCase{Name: fmt.Sprintf("concurrent/%djobs+%djobs", small[p[0]], small[p[1]]), Snaps: []*store.PersistedData{a, b}, Conc: true})
		cs = append(cs, crashCase{Name: fmt.Sprintf("concurrent-after-save/%djobs+%djobs", small[p[0]], small[p[1]]), Snaps: []*store.PersistedData{a, b, mkSnapshot("C", 1)}, Conc: true})
	}
	// data.json is a symbolic link when the first save arrives
	for _, i := range []int{1, 2} {
		cs = append(cs, crashCase{Name: "symlinked-data-file/" + sizes[i].n, Snaps: []*store.PersistedData{mk(i, "A"), mk(1, "B")}, Symlink: true, Fail: true})
	}
	// loads that overlap saves (snapshots of different encoded sizes)
	for _, p := range [][3]int{{1, 2, 0}, {2, 0, 1}, {0, 1, 2}} {
		cs = append(cs, crashCase{Name: fmt.Sprintf("load-during-saves/%djobs,then-%djobs+%djobs", small[p[0]], small[p[1]], small[p[2]]),
			Snaps: []*store.PersistedData{mkSnapshot("I", small[p[0]]), mkSnapshot("A", small[p[1]]), mkSnapshot("B", small[p[2]])}, Loader: true})
	}
	return cs
}

type crashResult struct {
	Points, Cuts, Execs, Saves, FaultRuns int
	Viol                                  []Violation
	Sample                                string
}

func runCrashCase(cc crashCase) crashResult {
	var res crashResult
	// the data directory is a volume of its own (the usual deployment): nothing can be renamed into it from elsewhere
	vos.DataDirIsMountPoint = true
	defer func() { vos.DataDirIsMountPoint = false }()
	if cc.Conc {
		return runCrashConcurrent(cc)
	}
	if cc.Loader {
		return runCrashLoader(cc)
	}
	dir, err := os.MkdirTemp("", "verif-c09-")
	if err != nil {
		panic(err)
	}
	defer os.RemoveAll(dir)
	ck := &crashChecker{dir: dir, name: cc.Name}
	ds, err := store.NewJSONDataStore(dir)
	if err != nil {
		panic(err)
	}
	linked := ""
	if cc.Symlink {
		target, err := os.MkdirTemp("", "verif-c09-target-")
		if err != nil {
			panic(err)
		}
		defer os.RemoveAll(target)
		ts, err := store.NewJSONDataStore(target)
		if err != nil {
			panic(err)
		}
		l := mkSnapshot("L", 2)
		if err := ts.Save(l); err != nil {
			panic(err)
		}
		if err := os.Symlink(filepath.Join(target, "data.json"), filepath.Join(dir, "data.json")); err != nil {
			panic(err)
		}
		linked = canon(l)
	}
	cur := -1 // index of the last save that returned nil
	inprog := -1
	ck.allowed = func() []string {
		var a []string
		if cur < 0 && linked != "" {
			a = append(a, linked)
		} else if cur < 0 {
			a = append(a, "")
		} else {
			a = append(a, canon(cc.Snaps[cur]))
		}
		if inprog >= 0 {
			a = append(a, canon(cc.Snaps[inprog]))
		}
		return a
	}
	var calls []string
	vos.H = &vos.Hooks{
		After: func(op, path string) {
			calls = append(calls, op)
			ck.inspect(op, path)
		},
		Cuts: writeCutPoints,
	}
	defer func() { vos.H = nil }()
	for i, sn := range cc.Snaps {
		inprog = i
		err := ds.Save(sn)
		res.Saves++
		inprog = -1
		if err != nil {
			ck.add("save-fails", fmt.Sprintf("save %d returned an error on a healthy file system: %v", i, err))
			break
		}
		cur = i
		ck.inspect("save-returned", "")
		// a save that has returned successfully is what the next load returns
		var loaded *store.PersistedData
		var lerr error
		withPlainOS(func() { loaded, lerr = ds.Load() })
		if lerr != nil || canon(loaded) != canon(sn) {
			ck.add("load-after-save", fmt.Sprintf("save %d returned nil but the next load returns err=%v, equal=%v", i, lerr, lerr == nil && canon(loaded) == canon(sn)))
		}
	}
	res.Sample = fmt.Sprintf("%s: calls of the run: %s", cc.Name, strings.Join(calls, " "))
	ncalls := len(calls)
	// fault injection: every call of one more save fails once; the published file must stay intact
	if cc.Fail && len(ck.viol) == 0 {
		last := cc.Snaps[len(cc.Snaps)-1]
		extra := mkSnapshot("F", 7)
		for k := 0; k < ncalls+2; k++ {
			n := 0
			injected := false
			vos.H = &vos.Hooks{
				After: func(op, path string) { ck.inspect(op+"(fault-run)", path) },
				Fail: func(op, path string) error {
					if op == "open" || op == "read" || op == "readfile" {
						return nil
					}
					n++
					if n-1 == k {
						injected = true
						return errors.New("injected I/O error")
					}
					return nil
				},
			}
			inprog = -2
			ck.allowed = func() []string { return []string{canon(last), canon(extra)} }
			err := ds.Save(extra)
			vos.H = nil
			if !injected {
				break
			}
			res.FaultRuns++
			var loaded *store.PersistedData
			var lerr error
			loaded, lerr = ds.Load()
			if lerr != nil {
				ck.add("fault-breaks-store", fmt.Sprintf("after a save whose call #%d failed (save returned %v) the store cannot be loaded: %v", k, err, lerr))
			} else if err == nil && canon(loaded) != canon(extra) {
				ck.add("fault-acknowledged", fmt.Sprintf("a save whose call #%d failed returned nil but the next load does not return its snapshot", k))
			} else if err != nil && canon(loaded) != canon(last) && canon(loaded) != canon(extra) {
				ck.add("fault-corrupts-store", fmt.Sprintf("after a failed save (call #%d) the store holds neither the previous nor the new snapshot", k))
			}
			if err == nil {
				last = extra
			}
			// the save after a failed one: it is acknowledged, so the store holds exactly its snapshot (nothing the failed
			// attempt left behind - in memory or on disk - may leak into it)
			rec := mkSnapshot(fmt.Sprintf("R%d", k), 1+k%3)
			inprog = -2
			ck.allowed = func() []string { return []string{canon(last), canon(extra), canon(rec)} }
			vos.H = &vos.Hooks{After: func(op, path string) { ck.inspect(op+"(save-after-fault)", path) }}
			rerr := ds.Save(rec)
			vos.H = nil
			if rerr != nil {
				ck.add("save-after-fault-fails", fmt.Sprintf("the save following a save whose call #%d failed returns %v", k, rerr))
			} else {
				l2, lerr2 := ds.Load()
				if lerr2 != nil || canon(l2) != canon(rec) {
					ck.add("save-after-fault-not-stored", fmt.Sprintf("after a save whose call #%d failed, the next save returned nil but a load returns err=%v and not its snapshot", k, lerr2))
				}
				last = rec
			}
		}
	}
	res.Points, res.Cuts, res.Execs, res.Viol = ck.points, ck.writeCuts, 1+res.FaultRuns, ck.viol
	return res
}

// runCrashConcurrent: two savers, every interleaving of their file-system calls (X1, unbounded:
// the space is tiny), every crash point in each interleaving.
func runCrashConcurrent(cc crashCase) crashResult {
	var res crashResult
	var viol []Violation
	type runState struct {
		dir string
		ck  *crashChecker
	}
	var cur *runState
	sc := &Scenario{
		Name: cc.Name,
		Opts: func() WorldOpts { return WorldOpts{Defs: defsOf(PipeCfg{Conc: 1, QL: -1, Graph: graphOne})} },
		Setup: func(w *World) {
			dir, err := os.MkdirTemp("", "verif-c09c-")
			if err != nil {
				panic(err)
			}
			ck := &crashChecker{dir: dir, name: cc.Name}
			cur = &runState{dir, ck}
			var ds *store.JsonDataStore
			withPlainOS(func() { ds, _ = store.NewJSONDataStore(dir) })
			started := [2]bool{}
			done := [2]bool{}
			hasInit := len(cc.Snaps) > 2
			if hasInit {
				withPlainOS(func() { _ = ds.Save(cc.Snaps[2]) })
			}
			ck.allowed = func() []string {
				var a []string
				if !done[0] && !done[1] {
					if hasInit {
						a = append(a, canon(cc.Snaps[2]))
					} else {
						a = append(a, "")
					}
				}
				for i := 0; i < 2; i++ {
					if started[i] {
						a = append(a, canon(cc.Snaps[i]))
					}
				}
				return a
			}
			vos.H = &vos.Hooks{After: func(op, path string) { ck.inspect(op, path) }, Cuts: func(n int) []int {
				if n > 3 {
					return []int{n / 2}
				}
				return nil
			}}
			for i := 0; i < 2; i++ {
				i := i
				w.S.Spawn(fmt.Sprintf("saver%d", i), "saver", func() {
					started[i] = true
					err := ds.Save(cc.Snaps[i])
					if err != nil {
						ck.add("save-fails", fmt.Sprintf("concurrent save %d returned an error: %v", i, err))
					}
					done[i] = true
					if done[0] && done[1] {
						ck.inspect("both-saves-returned", "")
					}
				})
			}
		},
		Check: func(w *World, x *Exec) []Violation {
			vos.H = nil
			vs := cur.ck.viol
			res.Points += cur.ck.points
			res.Cuts += cur.ck.writeCuts
			// leftover: the directory must hold a loadable data.json equal to one of the two
			os.RemoveAll(cur.dir)
			return vs
		},
		NoTick: true,
	}
	x := NewX1(sc, 100) // effectively unbounded: the happens-before cache closes the search
	x.Deadline = newBudget(60 * time.Second)
	x.explore(nil, nil)
	res.Execs = x.Execs
	for _, v := range x.Viol {
		viol = append(viol, v.Violation)
	}
	res.Viol = dedupV(viol)
	res.Saves = 2 * x.Execs
	res.Sample = fmt.Sprintf("%s: %d interleavings of the two savers' file-system calls (exhaustive=%v)", cc.Name, x.Execs, !x.TimedOut && !x.BoundHit)
	if x.TimedOut || x.BoundHit {
		res.Viol = append(res.Viol, Violation{Property: "infra", Rule: "cap", Norm: "cap", Msg: "interleaving space not closed"})
	}
	return res
}

// runCrashLoader: a thread that saves twice against a thread that loads twice, every interleaving of their file-system
// calls; every crash point is inspected as usual, and every load must succeed and return a snapshot the file may
// have held while the load ran ("complete, loadable at every instant" as seen by a reader that is not a fresh process)
func runCrashLoader(cc crashCase) crashResult {
	var res crashResult
	var viol []Violation
	type runState struct {
		dir string
		ck  *crashChecker
	}
	var cur *runState
	loads := 0
	sc := &Scenario{
		Name: cc.Name,
		Opts: func() WorldOpts { return WorldOpts{Defs: defsOf(PipeCfg{Conc: 1, QL: -1, Graph: graphOne})} },
		Setup: func(w *World) {
			dir, err := os.MkdirTemp("", "verif-c09l-")
			if err != nil {
				panic(err)
			}
			ck := &crashChecker{dir: dir, name: cc.Name}
			cur = &runState{dir, ck}
			var ds *store.JsonDataStore
			withPlainOS(func() {
				ds, _ = store.NewJSONDataStore(dir)
				_ = ds.Save(cc.Snaps[0])
			})
			started, done := 0, 0 // saves of the saver thread: snaps[1], snaps[2]
			ck.allowed = func() []string {
				var a []string
				for i := done; i <= started; i++ {
					a = append(a, canon(cc.Snaps[i]))
				}
				return a
			}
			vos.H = &vos.Hooks{After: func(op, path string) { ck.inspect(op, path) }, Cuts: func(n int) []int {
				if n > 3 {
					return []int{n / 2}
				}
				return nil
			}}
			w.S.Spawn("saver", "saver", func() {
				for i := 1; i <= 2; i++ {
					started = i
					if err := ds.Save(cc.Snaps[i]); err != nil {
						ck.add("save-fails", fmt.Sprintf("save %d returned an error while another thread loads: %v", i, err))
					}
					done = i
				}
			})
			w.S.Spawn("loader", "loader", func() {
				for k := 0; k < 2; k++ {
					lo := done
					got, err := ds.Load()
					hi := started
					loads++
					if err != nil {
						ck.add("load-during-save-fails", fmt.Sprintf("a load that overlaps a save returns an error although the file held a complete snapshot at every instant: %v", err))
						continue
					}
					ok := false
					for i := lo; i <= hi; i++ {
						if canon(got) == canon(cc.Snaps[i]) {
							ok = true
						}
					}
					if !ok {
						ck.add("load-during-save-wrong", fmt.Sprintf("a load that ran while saves %d..%d were the last completed / latest started returns none of their snapshots", lo, hi))
					}
				}
			})
		},
		Check: func(w *World, x *Exec) []Violation {
			vos.H = nil
			vs := cur.ck.viol
			res.Points += cur.ck.points
			res.Cuts += cur.ck.writeCuts
			os.RemoveAll(cur.dir)
			return vs
		},
		NoTick: true,
	}
	x := NewX1(sc, 100) // effectively unbounded: the happens-before cache closes the search
	x.Deadline = newBudget(60 * time.Second)
	x.explore(nil, nil)
	res.Execs = x.Execs
	for _, v := range x.Viol {
		viol = append(viol, v.Violation)
	}
	res.Viol = dedupV(viol)
	res.Saves = 2 * x.Execs
	res.Sample = fmt.Sprintf("%s: %d interleavings of a saver's and a loader's file-system calls, %d loads judged (exhaustive=%v)", cc.Name, x.Execs, loads, !x.TimedOut && !x.BoundHit)
	if x.TimedOut || x.BoundHit {
		res.Viol = append(res.Viol, Violation{Property: "infra", Rule: "cap", Norm: "cap", Msg: "interleaving space not closed"})
	}
	return res
}

var _ = bytes.Equal

func runCrashUnit(u Unit) UnitResult {
	res := UnitResult{Name: u.Name, Exhaustive: true, Unbounded: true}
	cases := crashCases(u.Tier)
	cc := cases[u.Index]
	r := runCrashCase(cc)
	res.Execs = r.Execs
	res.States = r.Points
	res.Transitions = r.Points
	res.Outcomes = r.Points
	res.Extra = map[string]int{"crash_points": r.Points, "write_cut_points": r.Cuts, "saves": r.Saves, "fault_injection_runs": r.FaultRuns}
	res.Samples = []string{r.Sample}
	for _, v := range r.Viol {
		if v.Property == "infra" {
			res.Exhaustive = false
			res.Caps = append(res.Caps, v.Msg)
			continue
		}
		res.Viol = append(res.Viol, FoundViolation{Violation: v, Scenario: cc.Name})
	}
	return res
}
