package main

import (
	"io"
	"runtime/pprof"
)

func pprofStart(w io.Writer) { pprof.StartCPUProfile(w) }
func pprofStop()             { pprof.StopCPUProfile() }
