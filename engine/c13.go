package main

// c13.go: data-race freedom of the public API. The same X1 exploration, in a -race build whose
// scheduler hand-offs are invisible to the race detector (shim/vsched/gate_spin.go), so that the
// detector's happens-before analysis sees exactly the edges production code would have.

import (
	"bufio"
	"fmt"
	"os"
	"sort"
	"strings"

	"github.com/Flowpack/prunner/store"
	"github.com/Flowpack/prunner/zverif/vsched"
)

type raceLog struct {
	path string
	off  int64
}

func newRaceLog() *raceLog {
	// GORACE=log_path=<p> makes the runtime write to <p>.<pid>
	for _, kv := range strings.Fields(os.Getenv("GORACE")) {
		if strings.HasPrefix(kv, "log_path=") {
			return &raceLog{path: fmt.Sprintf("%s.%d", strings.TrimPrefix(kv, "log_path="), os.Getpid())}
		}
	}
	return nil
}

type raceReport struct {
	Text string
	A, B string // accessing production frames ("func file:line"), "" if not production code
	Prod bool
}

func productionFrame(fn, loc string) bool {
	if !strings.HasPrefix(loc, "/repo/") {
		return false
	}
	if strings.HasPrefix(loc, "/repo/zverif/") || strings.Contains(loc, "_verif.go") || strings.HasPrefix(loc, "/repo/test/") {
		return false
	}
	return true
}

// parse splits the new part of the log into reports and classifies them
func (r *raceLog) poll() []raceReport {
	if r == nil {
		return nil
	}
	f, err := os.Open(r.path)
	if err != nil {
		return nil
	}
	defer f.Close()
	st, _ := f.Stat()
	if st.Size() <= r.off {
		return nil
	}
	f.Seek(r.off, 0)
	r.off = st.Size()
	var reports []raceReport
	var cur []string
	sc := bufio.NewScanner(f)
	sc.Buffer(make([]byte, 1<<20), 1<<26)
	flush := func() {
		if len(cur) == 0 {
			return
		}
		rep := raceReport{Text: strings.Join(cur, "\n")}
		// access blocks start with "Write at", "Read at", "Previous write at", "Previous read at"
		var accs []string
		for i := 0; i < len(cur); i++ {
			l := strings.TrimSpace(cur[i])
			if strings.HasPrefix(l, "Write at") || strings.HasPrefix(l, "Read at") || strings.HasPrefix(l, "Previous write at") || strings.HasPrefix(l, "Previous read at") {
				// frames follow as pairs of lines: function, location
				// the access is attributed to the innermost frame of the repository's production code, provided no
				// harness / shim frame lies between it and the access (library code called by production code - the JSON
				// encoder reading a snapshot, a map operation - acts on behalf of that production frame)
				acc := ""
				for j := i + 1; j+1 < len(cur); j += 2 {
					fn := strings.TrimSpace(cur[j])
					loc := strings.TrimSpace(cur[j+1])
					if fn == "" {
						break
					}
					locFile := strings.Fields(loc)
					if len(locFile) == 0 {
						continue
					}
					if strings.HasPrefix(locFile[0], "/verif/") || strings.HasPrefix(locFile[0], "/repo/zverif/") || strings.Contains(locFile[0], "_verif.go") || strings.Contains(locFile[0], "/.vp/") {
						break
					}
					if productionFrame(fn, locFile[0]) {
						acc = fn + " " + locFile[0]
						break
					}
				}
				accs = append(accs, acc)
			}
		}
		if len(accs) >= 2 {
			rep.A, rep.B = accs[0], accs[1]
			rep.Prod = accs[0] != "" && accs[1] != ""
		}
		reports = append(reports, rep)
		cur = nil
	}
	in := false
	for sc.Scan() {
		l := sc.Text()
		if strings.HasPrefix(l, "==================") {
			if in {
				flush()
			}
			in = !in
			continue
		}
		if in {
			cur = append(cur, l)
		}
	}
	flush()
	return reports
}

func stripLine(s string) string {
	// "func /repo/prunner.go:736" -> "func prunner.go"
	f := strings.Fields(s)
	if len(f) < 2 {
		return s
	}
	file := f[1]
	if i := strings.LastIndex(file, ":"); i > 0 {
		file = file[:i]
	}
	return f[0] + " " + strings.TrimPrefix(file, "/repo/")
}

// monStruct: structural invariants of the runner state at every release of the runner lock
func monStruct(f *Facts) []Violation {
	var vs []Violation
	for _, di := range f.Dumps {
		d := f.Log[di].Dump
		inPipe := map[int]int{}
		for p, l := range d.ByPipeline {
			for _, idx := range l {
				inPipe[idx]++
				if j := d.Job(idx); j == nil || j.Pipeline != p {
					vs = append(vs, Violation{Property: "C13", Rule: "struct", Norm: "jobsByPipeline-entry-not-in-jobsByID", Msg: fmt.Sprintf("event %d: job %d is listed under pipeline %s but not known by id (or belongs to another pipeline)", di, idx, p)})
				}
			}
		}
		for _, j := range d.Jobs {
			if inPipe[j.Idx] != 1 {
				vs = append(vs, Violation{Property: "C13", Rule: "struct", Norm: "job-index-inconsistent", Msg: fmt.Sprintf("event %d: job %d is known by id but listed %d times under its pipeline", di, j.Idx, inPipe[j.Idx])})
			}
		}
		for p, l := range d.WaitLists {
			seen := map[int]bool{}
			for _, idx := range l {
				j := d.Job(idx)
				if seen[idx] || j == nil || j.Pipeline != p {
					vs = append(vs, Violation{Property: "C13", Rule: "struct", Norm: "wait-list-inconsistent", Msg: fmt.Sprintf("event %d: wait list of %s = %v has a duplicate or unknown entry", di, p, l)})
				}
				seen[idx] = true
			}
		}
	}
	return dedupV(vs)
}

var c13StoreOnce store.DataStore

func c13Store() store.DataStore {
	if c13StoreOnce == nil {
		dir, err := os.MkdirTemp("", "verif-c13-")
		if err != nil {
			panic(err)
		}
		ds, err := store.NewJSONDataStore(dir)
		if err != nil {
			panic(err)
		}
		c13StoreOnce = ds
	}
	return c13StoreOnce
}

func c13Scenarios(tier string) []*Scenario {
	type nop struct {
		n  string
		op Op
	}
	ops := []nop{
		{"schedule", Op{Kind: "S", Pipeline: "p"}},
		{"cancel-running", Op{Kind: "C", Job: 2}},
		{"cancel-waiting", Op{Kind: "C", Job: 3}},
		{"read", Op{Kind: "Read", Job: 1}},
		{"list", Op{Kind: "List"}},
		{"reload", Op{Kind: "R", Def: 1}},
		{"save", Op{Kind: "Save"}},
		{"shutdown", Op{Kind: "Shutdown"}},
	}
	base := PipeCfg{Conc: 1, QL: -1, Graph: graphChain, RetCount: 1}
	other := base
	other.Conc = 2
	prefix := []XEvent{{Kind: "S", P: "p"}, {Kind: "Dok", Job: 1, Task: "a"}, {Kind: "Dok", Job: 1, Task: "b"}, {Kind: "S", P: "p"}, {Kind: "S", P: "p"}}
	mk := func(name string, sel []nop, prefix []XEvent, cfg, other PipeCfg) *Scenario {
		return &Scenario{
			Name: name,
			Desc: "concurrent API callers against: job 1 finished (removable by retention), job 2 running, job 3 waiting, persist loop alive",
			Opts: func() WorldOpts {
				o := WorldOpts{Defs: []*definitionPipelinesDef{mkDefs(map[string]PipeCfg{"p": cfg}), mkDefs(map[string]PipeCfg{"p": other})}, WithStore: true}
				for _, x := range sel {
					if x.n == "save" {
						// the real JSON store reads the snapshot after the runner lock has been released: that read must
						// be visible to the race detector (the harness itself is not instrumented)
						o.RealStore = c13Store()
					}
				}
				return o
			},
			Prefix: prefix,
			Setup: func(w *World) {
				w.Accepted = 3
				for _, o := range sel {
					w.SpawnDriver(o.op)
				}
			},
			Check: func(w *World, x *Exec) []Violation {
				f := buildFacts(w.Log, w.lastDump)
				return monStruct(f)
			},
		}
	}
	var scs []*Scenario
	for i := range ops {
		for j := i; j < len(ops); j++ {
			scs = append(scs, mk("pair/"+ops[i].n+"+"+ops[j].n, []nop{ops[i], ops[j]}, prefix, base, other))
		}
	}
	triples := [][3]int{{6, 4, 0}, {6, 3, 1}, {6, 4, 5}, {6, 6, 4}, {0, 1, 4}, {0, 2, 6}, {7, 6, 4}, {7, 0, 1}, {5, 0, 6}, {1, 2, 6}}
	if tier == "thorough" {
		triples = append(triples, [][3]int{{6, 3, 0}, {6, 1, 2}, {7, 4, 3}, {7, 5, 0}, {5, 4, 3}, {0, 0, 6}, {1, 1, 6}, {4, 4, 6}, {6, 5, 1}, {7, 6, 0}}...)
	}
	for _, t := range triples {
		scs = append(scs, mk("triple/"+ops[t[0]].n+"+"+ops[t[1]].n+"+"+ops[t[2]].n, []nop{ops[t[0]], ops[t[1]], ops[t[2]]}, prefix, base, other))
	}
	// the admission paths that only exist with a queue limit / the replace strategy (the list operation evaluates the
	// same admission decision as a schedule request, under the read lock)
	for _, v := range []struct {
		n   string
		cfg PipeCfg
	}{{"qlimit", PipeCfg{Conc: 1, QL: 2, Graph: graphChain, RetCount: 1}}, {"replace", PipeCfg{Conc: 1, QL: 1, Replace: true, Graph: graphChain, RetCount: 1}}} {
		o2 := v.cfg
		o2.Conc = 2
		for _, pr := range [][2]int{{4, 4}, {0, 4}, {0, 0}, {2, 4}, {3, 4}, {0, 2}, {4, 6}} {
			scs = append(scs, mk(v.n+"/pair/"+ops[pr[0]].n+"+"+ops[pr[1]].n, []nop{ops[pr[0]], ops[pr[1]]}, prefix, v.cfg, o2))
		}
	}
	// no retention rule anywhere, and a pipeline that a reload has dropped while it still has jobs: the save that purges
	// them against readers and other savers
	{
		p := PipeCfg{Conc: 1, QL: -1, Graph: graphChain}
		z := PipeCfg{Conc: 1, QL: -1, Graph: graphOne}
		withP := mkDefs(map[string]PipeCfg{"p": p, "z": z})
		withoutP := mkDefs(map[string]PipeCfg{"z": z})
		// (only finished jobs of p: purging unfinished jobs of a dropped pipeline is the recorded C01 finding - it also leaves
		// the wait list pointing at a purged job - and is not what this family is about)
		pre := []XEvent{{Kind: "S", P: "p"}, {Kind: "Dok", Job: 1, Task: "a"}, {Kind: "Dok", Job: 1, Task: "b"}, {Kind: "S", P: "p"}, {Kind: "Dok", Job: 2, Task: "a"}, {Kind: "Dok", Job: 2, Task: "b"}, {Kind: "R", Def: 1}}
		for _, pr := range [][2]int{{6, 3}, {6, 4}, {6, 6}} {
			sel := []nop{ops[pr[0]], ops[pr[1]]}
			scs = append(scs, &Scenario{
				Name: "dropped-pipeline/pair/" + sel[0].n + "+" + sel[1].n,
				Desc: "no retention rule; pipeline p (two finished jobs) was dropped by a reload; concurrent API callers",
				Opts: func() WorldOpts {
					return WorldOpts{Defs: []*definitionPipelinesDef{withP, withoutP}, WithStore: true, RealStore: c13Store()}
				},
				Prefix: pre,
				Setup: func(w *World) {
					w.Accepted = 2
					for _, o := range sel {
						w.SpawnDriver(o.op)
					}
				},
				Check: func(w *World, x *Exec) []Violation {
					f := buildFacts(w.Log, w.lastDump)
					return monStruct(f)
				},
			})
		}
	}
	// a pending start timer
	dcfg := PipeCfg{Conc: 1, QL: -1, Graph: graphOne, Delay: dly, RetCount: 1}
	dother := dcfg
	dother.Conc = 2
	dprefix := []XEvent{{Kind: "S", P: "p"}}
	for _, o := range []nop{ops[0], {"cancel-delayed", Op{Kind: "C", Job: 1}}, ops[4], ops[6], ops[5], ops[7]} {
		scs = append(scs, mk("timer/"+o.n, []nop{o, ops[6]}, dprefix, dcfg, dother))
	}
	sort.SliceStable(scs, func(i, j int) bool { return false })
	return scs
}

var _ = vsched.RaceBuild
