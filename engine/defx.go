package main

// defx.go (C17): bounded exhaustive inputs for the definition loader, validator and Equals.

import (
	"fmt"
	"os"
	"path/filepath"
	"reflect"
	"sort"
	"strings"
	"time"

	"github.com/Flowpack/prunner/definition"
	"github.com/Flowpack/prunner/zverif/vsched"
)

type defxResult struct {
	Cases, Distinct int
	Viol            []Violation
	Samples         []string
}

func (r *defxResult) add(norm, msg string) {
	for _, v := range r.Viol {
		if v.Norm == norm {
			return
		}
	}
	r.Viol = append(r.Viol, Violation{Property: "C17", Rule: "definitions", Norm: norm, Msg: msg})
}

// ---------------------------------------------------------------------------------------------
// part 1: validation grid, rendered to YAML and loaded through LoadRecursively

type gridDef struct {
	conc     int
	ql       string // "unset", "-1", "0", "1"
	delay    string // "-1s", "0s", "1s", "unset"
	strategy string // "unset", "append", "replace", "bogus"
	dep      string // "none", "other", "self", "missing"
}

func (g gridDef) yaml(name string) string {
	var sb strings.Builder
	fmt.Fprintf(&sb, "  %s:\n", name)
	fmt.Fprintf(&sb, "    concurrency: %d\n", g.conc)
	if g.ql != "unset" {
		fmt.Fprintf(&sb, "    queue_limit: %s\n", g.ql)
	}
	if g.delay != "unset" {
		fmt.Fprintf(&sb, "    start_delay: %s\n", g.delay)
	}
	if g.strategy != "unset" {
		fmt.Fprintf(&sb, "    queue_strategy: %s\n", g.strategy)
	}
	sb.WriteString("    env:\n      E1: \"v 1\"\n    tasks:\n      first:\n        script:\n          - echo first\n          - \"echo 'two'\"\n        env:\n          T: x\n      second:\n        script: [\"echo second\"]\n        allow_failure: true\n")
	switch g.dep {
	case "other":
		sb.WriteString("        depends_on: [first]\n")
	case "self":
		sb.WriteString("        depends_on: [second]\n")
	case "missing":
		sb.WriteString("        depends_on: [nosuchtask]\n")
	}
	return sb.String()
}

func (g gridDef) valid() bool {
	if g.conc < 0 {
		return false
	}
	if g.ql == "-1" {
		return false
	}
	if g.delay == "-1s" {
		return false
	}
	if g.delay == "1s" && g.ql == "0" {
		return false
	}
	if g.strategy == "bogus" {
		return false
	}
	if g.dep == "missing" {
		return false
	}
	return true
}

func (g gridDef) expect(path string) definition.PipelineDef {
	d := definition.PipelineDef{Concurrency: g.conc, SourcePath: path, Env: map[string]string{"E1": "v 1"}}
	if d.Concurrency == 0 {
		d.Concurrency = 1
	}
	switch g.ql {
	case "0", "1":
		q := int(g.ql[0] - '0')
		d.QueueLimit = &q
	}
	if g.delay == "1s" {
		d.StartDelay = time.Second
	}
	if g.strategy == "replace" {
		d.QueueStrategy = definition.QueueStrategyReplace
	}
	second := definition.TaskDef{Script: []string{"echo second"}, AllowFailure: true}
	switch g.dep {
	case "other":
		second.DependsOn = []string{"first"}
	case "self":
		second.DependsOn = []string{"second"}
	}
	d.Tasks = map[string]definition.TaskDef{
		"first":  {Script: []string{"echo first", "echo 'two'"}, Env: map[string]string{"T": "x"}},
		"second": second,
	}
	return d
}

func allGridDefs() []gridDef {
	var res []gridDef
	for _, conc := range []int{-1, 0, 1, 2} {
		for _, ql := range []string{"unset", "-1", "0", "1"} {
			for _, d := range []string{"-1s", "0s", "1s", "unset"} {
				for _, st := range []string{"unset", "append", "replace", "bogus"} {
					for _, dep := range []string{"none", "other", "self", "missing"} {
						res = append(res, gridDef{conc, ql, d, st, dep})
					}
				}
			}
		}
	}
	return res
}

func writeFile(dir, rel, content string) string {
	p := filepath.Join(dir, rel)
	os.MkdirAll(filepath.Dir(p), 0o755)
	if err := os.WriteFile(p, []byte(content), 0o644); err != nil {
		panic(err)
	}
	return p
}

// refEqual: deep equality where nil and empty slices / maps are the same configuration
func refEqual(a, b reflect.Value) bool {
	if a.Type() != b.Type() {
		return false
	}
	switch a.Kind() {
	case reflect.Ptr:
		if a.IsNil() || b.IsNil() {
			return a.IsNil() == b.IsNil()
		}
		return refEqual(a.Elem(), b.Elem())
	case reflect.Slice:
		if a.Len() != b.Len() {
			return false
		}
		for i := 0; i < a.Len(); i++ {
			if !refEqual(a.Index(i), b.Index(i)) {
				return false
			}
		}
		return true
	case reflect.Map:
		if a.Len() != b.Len() {
			return false
		}
		for _, k := range a.MapKeys() {
			bv := b.MapIndex(k)
			if !bv.IsValid() || !refEqual(a.MapIndex(k), bv) {
				return false
			}
		}
		return true
	case reflect.Struct:
		for i := 0; i < a.NumField(); i++ {
			if !refEqual(a.Field(i), b.Field(i)) {
				return false
			}
		}
		return true
	default:
		return a.Interface() == b.Interface()
	}
}

func runDefxValidation(part, parts int) defxResult {
	var res defxResult
	base, err := os.MkdirTemp("", "verif-c17-")
	if err != nil {
		panic(err)
	}
	defer os.RemoveAll(base)
	grid := allGridDefs()
	for i, g := range grid {
		if i%parts != part {
			continue
		}
		dir := filepath.Join(base, fmt.Sprintf("g%d", i))
		path := writeFile(dir, "pipelines.yml", "pipelines:\n"+g.yaml("p1"))
		// map iteration order inside the definition package is the checker's: every permutation of
		// up to three keys (the definitions here have two tasks) is enumerated
		var defs *definition.PipelinesDef
		var err error
		verdicts := map[bool]int{}
		for perm := 0; perm < 6; perm++ {
			setKeyPermutation(perm)
			d2, e2 := definition.LoadRecursively(filepath.Join(dir, "**/pipelines.{yml,yaml}"))
			verdicts[e2 == nil]++
			if perm == 0 || (err == nil && e2 != nil && g.valid()) || (err != nil && e2 == nil && !g.valid()) {
				defs, err = d2, e2
			}
		}
		setKeyPermutation(0)
		if len(verdicts) > 1 {
			res.add("load-result-depends-on-map-order", fmt.Sprintf("whether this definition loads depends on map iteration order (%d of 6 orders accept it): conc=%d queue_limit=%s start_delay=%s strategy=%s depends_on=%s", verdicts[true], g.conc, g.ql, g.delay, g.strategy, g.dep))
		}
		res.Cases += 6
		desc := fmt.Sprintf("conc=%d queue_limit=%s start_delay=%s strategy=%s depends_on=%s", g.conc, g.ql, g.delay, g.strategy, g.dep)
		if g.valid() {
			res.Distinct++
			if err != nil {
				res.add("valid-rejected:"+whyKey(g), "a valid definition is rejected: "+desc+": "+err.Error())
				continue
			}
			got, ok := defs.Pipelines["p1"]
			if !ok || len(defs.Pipelines) != 1 {
				res.add("valid-lost", "a valid definition loads to a set without it: "+desc)
				continue
			}
			want := g.expect(path)
			if !refEqual(reflect.ValueOf(got), reflect.ValueOf(want)) {
				res.add("loads-differently:"+firstDiff(got, want), fmt.Sprintf("%s loads to %+v, the file says %+v", desc, got, want))
			}
			if len(res.Samples) < 2 {
				res.Samples = append(res.Samples, "valid: "+desc)
			}
		} else {
			res.Distinct++
			if err == nil {
				res.add("invalid-accepted:"+whyKey(g), "an invalid definition loads without error: "+desc)
			} else if len(res.Samples) < 4 {
				res.Samples = append(res.Samples, "invalid ("+err.Error()+"): "+desc)
			}
		}
	}
	return res
}

// setKeyPermutation makes every instrumented map iteration use the perm-th permutation of its
// (sorted) keys when there are at most three, and the reversed order for larger maps when perm is odd
func setKeyPermutation(perm int) {
	if perm == 0 {
		vsched.KeyOrder = nil
		return
	}
	perms3 := [][3]int{{0, 1, 2}, {0, 2, 1}, {1, 0, 2}, {1, 2, 0}, {2, 0, 1}, {2, 1, 0}}
	vsched.KeyOrder = func(n int, swap func(i, j int)) {
		switch {
		case n == 2:
			if perm%2 == 1 {
				swap(0, 1)
			}
		case n == 3:
			p := perms3[perm%6]
			// apply permutation p by selection: position i must receive original element p[i]
			cur := []int{0, 1, 2}
			for i := 0; i < 3; i++ {
				for j := i; j < 3; j++ {
					if cur[j] == p[i] {
						if i != j {
							swap(i, j)
							cur[i], cur[j] = cur[j], cur[i]
						}
						break
					}
				}
			}
		case n > 3:
			if perm%2 == 1 {
				for i, j := 0, n-1; i < j; i, j = i+1, j-1 {
					swap(i, j)
				}
			}
		}
	}
}

func whyKey(g gridDef) string {
	var k []string
	if g.conc < 0 {
		k = append(k, "conc<0")
	}
	if g.conc == 0 {
		k = append(k, "conc=0")
	}
	if g.ql == "-1" {
		k = append(k, "ql<0")
	}
	if g.delay == "-1s" {
		k = append(k, "delay<0")
	}
	if g.delay == "1s" && g.ql == "0" {
		k = append(k, "delay-needs-queue")
	}
	if g.strategy == "bogus" {
		k = append(k, "strategy")
	}
	if g.dep == "missing" {
		k = append(k, "missing-dep")
	}
	if g.dep == "self" {
		k = append(k, "self-dep")
	}
	return strings.Join(k, "+")
}

func firstDiff(a, b definition.PipelineDef) string {
	va, vb := reflect.ValueOf(a), reflect.ValueOf(b)
	for i := 0; i < va.NumField(); i++ {
		if !refEqual(va.Field(i), vb.Field(i)) {
			return va.Type().Field(i).Name
		}
	}
	return "?"
}

// ---------------------------------------------------------------------------------------------
// part 2: file sets

func runDefxFileSets() defxResult {
	var res defxResult
	base, err := os.MkdirTemp("", "verif-c17f-")
	if err != nil {
		panic(err)
	}
	defer os.RemoveAll(base)
	gA := gridDef{1, "1", "1s", "replace", "other"}
	gB := gridDef{2, "unset", "0s", "append", "none"}
	pat := "**/pipelines.{yml,yaml}"
	load := func(dir string) (*definition.PipelinesDef, error) {
		return definition.LoadRecursively(filepath.Join(dir, pat))
	}
	strip := func(d *definition.PipelinesDef) map[string]definition.PipelineDef {
		m := map[string]definition.PipelineDef{}
		for k, v := range d.Pipelines {
			v.SourcePath = ""
			m[k] = v
		}
		return m
	}
	// one file
	d1 := filepath.Join(base, "one")
	writeFile(d1, "pipelines.yml", "pipelines:\n"+gA.yaml("alpha")+gB.yaml("beta"))
	one, err := load(d1)
	res.Cases++
	if err != nil {
		res.add("fileset-one-file", "two valid pipelines in one file are rejected: "+err.Error())
		return res
	}
	layouts := map[string][2][2]string{ // name -> [file of alpha, file of beta] (rel path)
		"two-files":      {{"a/pipelines.yml", "alpha"}, {"b/pipelines.yml", "beta"}},
		"two-files-swap": {{"b/pipelines.yml", "alpha"}, {"a/pipelines.yml", "beta"}},
		"nested":         {{"x/y/z/pipelines.yaml", "alpha"}, {"pipelines.yml", "beta"}},
		"nested-swap":    {{"pipelines.yml", "alpha"}, {"x/y/z/pipelines.yaml", "beta"}},
	}
	names := make([]string, 0, len(layouts))
	for n := range layouts {
		names = append(names, n)
	}
	sort.Strings(names)
	for _, n := range names {
		l := layouts[n]
		dir := filepath.Join(base, n)
		pa := writeFile(dir, l[0][0], "pipelines:\n"+gA.yaml("alpha"))
		pb := writeFile(dir, l[1][0], "pipelines:\n"+gB.yaml("beta"))
		got, err := load(dir)
		res.Cases++
		res.Distinct++
		if err != nil {
			res.add("fileset-rejected:"+n, "a valid file set ("+n+") is rejected: "+err.Error())
			continue
		}
		if !refEqual(reflect.ValueOf(strip(got)), reflect.ValueOf(strip(one))) {
			res.add("fileset-order-dependent", fmt.Sprintf("the file set %s loads to different definitions than the same pipelines in one file", n))
		}
		if got.Pipelines["alpha"].SourcePath != pa || got.Pipelines["beta"].SourcePath != pb {
			res.add("fileset-sourcepath", fmt.Sprintf("file set %s: source paths %q / %q, expected %q / %q", n, got.Pipelines["alpha"].SourcePath, got.Pipelines["beta"].SourcePath, pa, pb))
		}
		// Equals of two loads of the same set
		again, _ := load(dir)
		if again == nil || !got.Equals(*again) || !again.Equals(*got) {
			res.add("equals-not-reflexive-on-reload", "two loads of the same file set do not compare equal ("+n+")")
		}
	}
	// the same files under a renamed directory: the contents are byte-identical, the configuration is not (source_path
	// is a field like any other) - two loads compare different, in both directions
	{
		dirA, dirB := filepath.Join(base, "moved-a"), filepath.Join(base, "moved-b")
		writeFile(dirA, "project/pipelines.yml", "pipelines:\n"+gA.yaml("alpha"))
		writeFile(dirA, "zeta/pipelines.yml", "pipelines:\n"+gB.yaml("beta"))
		writeFile(dirB, "project-renamed/pipelines.yml", "pipelines:\n"+gA.yaml("alpha"))
		writeFile(dirB, "zeta/pipelines.yml", "pipelines:\n"+gB.yaml("beta"))
		la, errA := load(dirA)
		lb, errB := load(dirB)
		res.Cases++
		res.Distinct++
		if errA != nil || errB != nil {
			res.add("fileset-rejected:moved", fmt.Sprintf("valid file sets are rejected: %v / %v", errA, errB))
		} else {
			// relative to their own roots only the directory name differs
			if la.Pipelines["alpha"].SourcePath == lb.Pipelines["alpha"].SourcePath {
				res.add("fileset-sourcepath", "two different directories yield the same source path")
			} else if la.Equals(*lb) || lb.Equals(*la) {
				res.add("equals-ignores-moved-file", "two loaded definition sets whose files have identical contents but different paths compare equal")
			}
		}
	}
	// duplicate name across files, both orders
	for _, n := range []string{"dup-ab", "dup-ba"} {
		dir := filepath.Join(base, n)
		f1, f2 := "a/pipelines.yml", "b/pipelines.yml"
		if n == "dup-ba" {
			f1, f2 = f2, f1
		}
		writeFile(dir, f1, "pipelines:\n"+gA.yaml("alpha"))
		writeFile(dir, f2, "pipelines:\n"+gB.yaml("alpha")+gB.yaml("beta"))
		_, err := load(dir)
		res.Cases++
		res.Distinct++
		if err == nil {
			res.add("duplicate-name-accepted", "a pipeline name declared in two files is accepted ("+n+")")
		}
	}
	// the same name declared twice with the very same body (copy of a file, include by two globs): still not unique
	for _, n := range []string{"dup-identical-ab", "dup-identical-ba"} {
		dir := filepath.Join(base, n)
		f1, f2 := "a/pipelines.yml", "b/pipelines.yml"
		if n == "dup-identical-ba" {
			f1, f2 = f2, f1
		}
		writeFile(dir, f1, "pipelines:\n"+gA.yaml("alpha"))
		writeFile(dir, f2, "pipelines:\n"+gA.yaml("alpha")+gB.yaml("beta"))
		_, err := load(dir)
		res.Cases++
		res.Distinct++
		if err == nil {
			res.add("duplicate-name-accepted", "a pipeline name declared in two files (with identical bodies) is accepted ("+n+")")
		}
	}
	// size ladder: "loads to exactly what it says" whatever the size of a file. A pipeline sits at the very end of a file
	// of 4 KiB ... 8 MiB (comment padding, so the expected definitions stay the two of the one-file case), each size just
	// below and just above the power of two; an edit behind the padding must be seen by Equals; a duplicate name behind
	// the padding must be refused.
	for _, kb := range []int{4, 64, 1024, 4096, 8192} {
		for _, off := range []int{-1, 1} {
			n := fmt.Sprintf("size-%dKiB%+d", kb, off)
			dir := filepath.Join(base, n)
			head := "pipelines:\n" + gA.yaml("alpha")
			line := "# " + strings.Repeat("x", 77) + "\n"
			target := kb*1024 + off*40
			var sb strings.Builder
			sb.WriteString(head)
			for sb.Len()+len(line) < target {
				sb.WriteString(line)
			}
			for sb.Len() < target {
				sb.WriteString("#\n")
			}
			padded := sb.String()
			writeFile(dir, "pipelines.yml", padded+gB.yaml("beta"))
			got, err := load(dir)
			res.Cases++
			res.Distinct++
			if err != nil {
				res.add("fileset-rejected:size", "a valid file ("+n+") is rejected: "+err.Error())
				continue
			}
			if !refEqual(reflect.ValueOf(strip(got)), reflect.ValueOf(strip(one))) {
				res.add("fileset-size-dependent", fmt.Sprintf("a file of %d bytes (%s) with a pipeline at its end loads to %d pipelines, not to the two it declares", len(padded)+len(gB.yaml("beta")), n, len(got.Pipelines)))
				continue
			}
			// the same file with the last pipeline edited
			dir2 := filepath.Join(base, n+"-edited")
			writeFile(dir2, "pipelines.yml", padded+gA.yaml("beta"))
			got2, err2 := load(dir2)
			res.Cases++
			if err2 != nil {
				res.add("fileset-rejected:size", "a valid file ("+n+"-edited) is rejected: "+err2.Error())
			} else {
				g1, g2 := strip(got), strip(got2)
				a, b := definition.PipelinesDef{Pipelines: g1}, definition.PipelinesDef{Pipelines: g2}
				if a.Equals(b) || b.Equals(a) {
					res.add("equals-ignores-edit-behind-padding", "an edit to the last pipeline of a large file ("+n+") compares equal")
				}
			}
			// a duplicate of alpha in a second file, declared behind the padding
			dir3 := filepath.Join(base, n+"-dup")
			writeFile(dir3, "a/pipelines.yml", "pipelines:\n"+gB.yaml("beta"))
			writeFile(dir3, "b/pipelines.yml", padded+gB.yaml("beta"))
			_, err3 := load(dir3)
			res.Cases++
			if err3 == nil {
				res.add("duplicate-name-accepted", "a pipeline name declared in two files is accepted when the second declaration sits at the end of a large file ("+n+")")
			}
		}
	}
	// duplicate inside one file is a YAML-level matter (later key wins or error): not asserted
	res.Samples = append(res.Samples, "file sets: one file, two files (both orders), nested directories (both orders), duplicate names (both orders)")
	return res
}

// ---------------------------------------------------------------------------------------------
// part 3: Equals against reference equality, fields discovered by reflection

func valuesFor(t reflect.Type) []reflect.Value {
	mk := func(xs ...interface{}) []reflect.Value {
		var res []reflect.Value
		for _, x := range xs {
			if x == nil {
				res = append(res, reflect.Zero(t))
			} else {
				res = append(res, reflect.ValueOf(x).Convert(t))
			}
		}
		return res
	}
	switch t.Kind() {
	case reflect.Int, reflect.Int64, reflect.Int32, reflect.Int16:
		return mk(0, 1, 2, 7)
	case reflect.Bool:
		return mk(false, true)
	case reflect.String:
		return mk("", "x", "y", "x ")
	case reflect.Ptr:
		if t.Elem().Kind() == reflect.Int {
			z, o, tw := 0, 1, 2
			return []reflect.Value{reflect.Zero(t), reflect.ValueOf(&z), reflect.ValueOf(&o), reflect.ValueOf(&tw)}
		}
	case reflect.Slice:
		if t.Elem().Kind() == reflect.String {
			return mk(nil, []string{}, []string{"a"}, []string{"b"}, []string{"a", "b"}, []string{"b", "a"}, []string{""}, []string{"a", ""})
		}
	case reflect.Map:
		if t.Key().Kind() == reflect.String && t.Elem().Kind() == reflect.String {
			return mk(nil, map[string]string{}, map[string]string{"A": ""}, map[string]string{"B": ""}, map[string]string{"A": "1"}, map[string]string{"A": "1", "B": ""}, map[string]string{"A": "", "B": "1"}, map[string]string{"A": "2"})
		}
		if t.Key().Kind() == reflect.String && t.Elem() == reflect.TypeOf(definition.TaskDef{}) {
			t1 := definition.TaskDef{Script: []string{"s"}}
			t2 := definition.TaskDef{Script: []string{"s"}, AllowFailure: true}
			return mk(nil, map[string]definition.TaskDef{}, map[string]definition.TaskDef{"a": t1}, map[string]definition.TaskDef{"b": t1}, map[string]definition.TaskDef{"a": t2}, map[string]definition.TaskDef{"a": t1, "b": t1}, map[string]definition.TaskDef{"a": t1, "b": t2})
		}
	}
	return nil
}

func showVal(v reflect.Value) string {
	if v.Kind() == reflect.Ptr {
		if v.IsNil() {
			return "nil"
		}
		return fmt.Sprintf("&%v", v.Elem().Interface())
	}
	if (v.Kind() == reflect.Map || v.Kind() == reflect.Slice) && v.IsNil() {
		return "nil"
	}
	return fmt.Sprintf("%#v", v.Interface())
}

func runDefxEquals() defxResult {
	var res defxResult
	q1 := 1
	bases := []definition.PipelineDef{
		{Concurrency: 1},
		{Concurrency: 2, QueueLimit: &q1, QueueStrategy: definition.QueueStrategyReplace, StartDelay: time.Second, ContinueRunningTasksAfterFailure: true,
			RetentionPeriod: time.Hour, RetentionCount: 3, Env: map[string]string{"E": "1"}, SourcePath: "/x/pipelines.yml",
			Tasks: map[string]definition.TaskDef{"a": {Script: []string{"s1", "s2"}, DependsOn: []string{"b"}, AllowFailure: true, Env: map[string]string{"T": ""}}, "b": {Script: []string{"s"}}}},
	}
	wrap := func(p definition.PipelineDef) definition.PipelinesDef {
		return definition.PipelinesDef{Pipelines: definition.PipelinesMap{"p": p, "other": {Concurrency: 1, Tasks: map[string]definition.TaskDef{"t": {Script: []string{"x"}}}}}}
	}
	pt := reflect.TypeOf(definition.PipelineDef{})
	tt := reflect.TypeOf(definition.TaskDef{})
	for bi, base := range bases {
		// PipelineDef fields
		for fi := 0; fi < pt.NumField(); fi++ {
			f := pt.Field(fi)
			vals := valuesFor(f.Type)
			if vals == nil {
				panic(InfraError{fmt.Sprintf("C17: no value grid for field PipelineDef.%s of type %s - extend valuesFor", f.Name, f.Type)})
			}
			for _, v1 := range vals {
				for _, v2 := range vals {
					x, y := base, base
					reflect.ValueOf(&x).Elem().Field(fi).Set(v1)
					reflect.ValueOf(&y).Elem().Field(fi).Set(v2)
					want := refEqual(v1, v2)
					got := wrap(x).Equals(wrap(y))
					res.Cases++
					if !want {
						res.Distinct++
					}
					if got != want {
						res.add(fmt.Sprintf("equals:%s:%v-instead-of-%v:%s", f.Name, got, want, diffClass(v1, v2)),
							fmt.Sprintf("PipelineDef.%s: Equals(%s, %s) = %v, but the configurations are %s (base %d)", f.Name, showVal(v1), showVal(v2), got, sameWord(want), bi))
					}
				}
			}
		}
		// TaskDef fields (task "a" of pipeline p)
		for fi := 0; fi < tt.NumField(); fi++ {
			f := tt.Field(fi)
			vals := valuesFor(f.Type)
			if vals == nil {
				panic(InfraError{fmt.Sprintf("C17: no value grid for field TaskDef.%s of type %s - extend valuesFor", f.Name, f.Type)})
			}
			for _, v1 := range vals {
				for _, v2 := range vals {
					mkp := func(v reflect.Value) definition.PipelineDef {
						p := base
						p.Tasks = map[string]definition.TaskDef{}
						for k, t := range base.Tasks {
							p.Tasks[k] = t
						}
						t := p.Tasks["a"]
						reflect.ValueOf(&t).Elem().Field(fi).Set(v)
						p.Tasks["a"] = t
						return p
					}
					want := refEqual(v1, v2)
					got := wrap(mkp(v1)).Equals(wrap(mkp(v2)))
					res.Cases++
					if !want {
						res.Distinct++
					}
					if got != want {
						res.add(fmt.Sprintf("equals:TaskDef.%s:%v-instead-of-%v:%s", f.Name, got, want, diffClass(v1, v2)),
							fmt.Sprintf("TaskDef.%s: Equals(%s, %s) = %v, but the configurations are %s (base %d)", f.Name, showVal(v1), showVal(v2), got, sameWord(want), bi))
					}
				}
			}
		}
		// the task level: a task renamed (keeping its definition; also a task without any setting), added, removed
		for ti, td := range []definition.TaskDef{{Script: []string{"s"}, AllowFailure: true}, {}} {
			mk := func(names ...string) definition.PipelinesDef {
				p := base
				p.Tasks = map[string]definition.TaskDef{"keep": {Script: []string{"k"}}}
				for _, n := range names {
					p.Tasks[n] = td
				}
				return wrap(p)
			}
			res.Cases += 3
			res.Distinct += 3
			if x, y := mk("one"), mk("other"); x.Equals(y) || y.Equals(x) {
				res.add(fmt.Sprintf("equals:task-renamed:%d", ti), fmt.Sprintf("a pipeline compares equal to the same pipeline with a task renamed (task definition %+v)", td))
			}
			if x, y := mk("one"), mk(); x.Equals(y) || y.Equals(x) {
				res.add(fmt.Sprintf("equals:task-removed:%d", ti), fmt.Sprintf("a pipeline compares equal to the same pipeline without one task (task definition %+v)", td))
			}
			if x, y := mk("one"), mk("one", "two"); x.Equals(y) || y.Equals(x) {
				res.add(fmt.Sprintf("equals:task-added:%d", ti), fmt.Sprintf("a pipeline compares equal to the same pipeline with one more task (task definition %+v)", td))
			}
		}
		// the set level: pipeline added / removed / renamed
		a := wrap(base)
		b := wrap(base)
		delete(b.Pipelines, "other")
		c := wrap(base)
		c.Pipelines["renamed"] = c.Pipelines["other"]
		delete(c.Pipelines, "other")
		res.Cases += 3
		res.Distinct += 2
		if a.Equals(b) || b.Equals(a) {
			res.add("equals:set:pipeline-removed", "a definition set compares equal to the same set without one pipeline")
		}
		if a.Equals(c) || c.Equals(a) {
			res.add("equals:set:pipeline-renamed", "a definition set compares equal to the same set with one pipeline renamed")
		}
		if !a.Equals(wrap(base)) {
			res.add("equals:set:copy", "a definition set does not compare equal to a copy of itself")
		}
	}
	res.Samples = append(res.Samples, fmt.Sprintf("fields by reflection: PipelineDef %d fields, TaskDef %d fields; all ordered pairs of the per-kind value grid per field", pt.NumField(), tt.NumField()))
	return res
}

func sameWord(b bool) string {
	if b {
		return "the same"
	}
	return "different"
}

func diffClass(a, b reflect.Value) string {
	if a.Kind() == reflect.Map && a.Len() == b.Len() {
		return "same-size-different-keys-or-values"
	}
	if (a.Kind() == reflect.Map || a.Kind() == reflect.Slice) && (a.Len() == 0 && b.Len() == 0) {
		return "nil-vs-empty"
	}
	return "value"
}

func runDefxUnit(u Unit) UnitResult {
	res := UnitResult{Name: u.Name, Exhaustive: true, Unbounded: true}
	var r defxResult
	switch {
	case u.Index < 8:
		r = runDefxValidation(u.Index, 8)
	case u.Index == 8:
		r = runDefxFileSets()
	default:
		r = runDefxEquals()
	}
	res.Execs, res.States, res.Transitions, res.Outcomes = r.Cases, r.Cases, r.Cases, r.Distinct
	res.Samples = r.Samples
	for _, v := range r.Viol {
		res.Viol = append(res.Viol, FoundViolation{Violation: v, Scenario: u.Name})
	}
	return res
}
