package main

// world.go: one controlled execution of the real PipelineRunner ("world"): the mock task runner
// that follows the notification protocol of taskctl/runner.go, the totally ordered event log,
// dumps of the private runner state, driver operations and environment events.

import (
	"context"
	"errors"
	"fmt"
	"io"
	"os"
	"sort"
	"strings"
	"sync"
	"sync/atomic"
	"time"

	"github.com/apex/log"
	"github.com/apex/log/handlers/discard"
	"github.com/gofrs/uuid"
	"github.com/taskctl/taskctl/pkg/scheduler"
	"github.com/taskctl/taskctl/pkg/task"

	"github.com/Flowpack/prunner"
	"github.com/Flowpack/prunner/definition"
	"github.com/Flowpack/prunner/store"
	"github.com/Flowpack/prunner/taskctl"
	"github.com/Flowpack/prunner/zverif/vsched"
)

func init() {
	log.SetHandler(discard.New())
	uuid.DefaultGenerator = &seqGen{}
	taskctl.VerifIdleHook = idleHook
}

// ---------------------------------------------------------------------------------------------
// deterministic job ids: 00000000-0000-4000-8000-0000000000NN, NN = accept order (from 1)

type seqGen struct{ n uint32 }

func (g *seqGen) next() (uuid.UUID, error) {
	n := atomic.AddUint32(&g.n, 1)
	var u uuid.UUID
	u[6] = 0x40
	u[8] = 0x80
	u[12] = byte(n >> 24)
	u[13] = byte(n >> 16)
	u[14] = byte(n >> 8)
	u[15] = byte(n)
	return u, nil
}
func (g *seqGen) NewV1() (uuid.UUID, error)                 { return g.next() }
func (g *seqGen) NewV6() (uuid.UUID, error)                 { return g.next() }
func (g *seqGen) NewV7(p uuid.Precision) (uuid.UUID, error) { return g.next() }
func (g *seqGen) NewV3(ns uuid.UUID, name string) uuid.UUID { u, _ := g.next(); return u }
func (g *seqGen) NewV4() (uuid.UUID, error)                 { return g.next() }
func (g *seqGen) NewV5(ns uuid.UUID, name string) uuid.UUID { u, _ := g.next(); return u }
func (g *seqGen) reset()                                    { atomic.StoreUint32(&g.n, 0) }
func jobIndex(id uuid.UUID) int {
	return int(id[12])<<24 | int(id[13])<<16 | int(id[14])<<8 | int(id[15])
}
func jobUUID(idx int) uuid.UUID {
	var u uuid.UUID
	u[6] = 0x40
	u[8] = 0x80
	u[12] = byte(idx >> 24)
	u[13] = byte(idx >> 16)
	u[14] = byte(idx >> 8)
	u[15] = byte(idx)
	return u
}

// ---------------------------------------------------------------------------------------------
// events

type Event struct {
	Seq    int           `json:"seq"`
	VT     time.Duration `json:"vt"`
	Kind   string        `json:"kind"`
	Job    int           `json:"job,omitempty"`  // accept index (1-based), 0 = none
	Inst   int           `json:"inst,omitempty"` // runner instance (1-based), 0 = none
	Task   string        `json:"task,omitempty"`
	Thread string        `json:"thread,omitempty"`
	Detail string        `json:"detail,omitempty"`
	Err    string        `json:"err,omitempty"`
	Dump   *Dump         `json:"-"`
}

func (e Event) String() string {
	s := fmt.Sprintf("%3d vt=%-12v %-14s", e.Seq, e.VT, e.Kind)
	if e.Job != 0 {
		s += fmt.Sprintf(" job=%d", e.Job)
	}
	if e.Inst != 0 {
		s += fmt.Sprintf(" inst=%d", e.Inst)
	}
	if e.Task != "" {
		s += " task=" + e.Task
	}
	if e.Detail != "" {
		s += " " + e.Detail
	}
	if e.Err != "" {
		s += " err=" + e.Err
	}
	if e.Thread != "" {
		s += " [" + e.Thread + "]"
	}
	if e.Dump != nil {
		s += " " + e.Dump.Short()
	}
	return s
}

// event kinds
const (
	EvApiCall      = "api.call"
	EvApiRet       = "api.ret"
	EvNewRunner    = "runner.new" // createTaskRunner called
	EvRunRefused   = "run.refused"
	EvRunEnter     = "run.enter"
	EvRunExit      = "run.exit"
	EvCancelCalled = "cancel.called"
	EvCancelReturn = "cancel.return"
	EvFinish       = "runner.finish"
	EvUnlock       = "unlock" // write-unlock of the runner lock, with dump
	EvQuiescent    = "quiescent"
	EvEnv          = "env"
	EvSave         = "store.save"
	EvShutdownRet  = "shutdown.ret"
	EvDeadlock     = "deadlock"
)

// ---------------------------------------------------------------------------------------------
// dumps

type DTask struct {
	Name     string
	Status   string
	HasStart bool
	HasEnd   bool
	Errored  bool
	Canceled bool
	Skipped  bool
	ExitCode int16
	Error    string
	Deps     []string
	Script   []string
	Allow    bool
	Env      map[string]string
}

type DJob struct {
	Idx        int
	Pipeline   string
	Completed  bool
	Canceled   bool
	Created    time.Duration // relative to the time origin
	Start      time.Duration // -1 = nil
	End        time.Duration // -1 = nil
	StartDelay time.Duration
	LastError  string
	HasSched   bool
	HasTimer   bool
	User       string
	Tasks      []DTask
	Env        map[string]string
	Bad        bool   // carries the reserved variable (its graph cannot be built)
	Stages     string // stage statuses of the execution graph, if the job has a poll loop registered
}

func (j *DJob) Started() bool  { return j.Start != nilDur }
func (j *DJob) Running() bool  { return j.Start != nilDur && !j.Completed && !j.Canceled }
func (j *DJob) Waiting() bool  { return j.Start == nilDur && !j.Canceled }
func (j *DJob) Terminal() bool { return j.Completed || j.Canceled }

type Dump struct {
	Jobs         []DJob // sorted by Idx
	WaitLists    map[string][]int
	ByPipeline   map[string][]int
	ShuttingDown bool
	Defs         *definition.PipelinesDef
	// PersistPending: a save request is buffered for the persist loop
	PersistPending int
}

func (d *Dump) Job(idx int) *DJob {
	for i := range d.Jobs {
		if d.Jobs[i].Idx == idx {
			return &d.Jobs[i]
		}
	}
	return nil
}

func (d *Dump) Short() string {
	var sb strings.Builder
	for _, j := range d.Jobs {
		st := "W"
		switch {
		case j.Canceled && j.Completed:
			st = "XC"
		case j.Canceled:
			st = "X"
		case j.Completed:
			st = "C"
		case j.Start != nilDur:
			st = "R"
		}
		if j.HasTimer {
			st += "t"
		}
		fmt.Fprintf(&sb, "%d:%s", j.Idx, st)
		if j.LastError != "" {
			sb.WriteString("!")
		}
		sb.WriteString("(")
		for i, t := range j.Tasks {
			if i > 0 {
				sb.WriteString(",")
			}
			sb.WriteString(t.Name + "=" + t.Status)
			if t.Errored {
				sb.WriteString("E")
			}
			if t.Canceled {
				sb.WriteString("x")
			}
		}
		sb.WriteString(") ")
	}
	ps := make([]string, 0, len(d.WaitLists))
	for p := range d.WaitLists {
		ps = append(ps, p)
	}
	sort.Strings(ps)
	for _, p := range ps {
		fmt.Fprintf(&sb, "wl[%s]=%v ", p, d.WaitLists[p])
	}
	if d.ShuttingDown {
		sb.WriteString("SHUTDOWN ")
	}
	return sb.String()
}

func (w *World) dump() *Dump {
	st := prunner.VerifDump(w.R)
	d := &Dump{WaitLists: map[string][]int{}, ByPipeline: map[string][]int{}, ShuttingDown: st.IsShuttingDown, Defs: st.Defs, PersistPending: st.PersistPending}
	for i, rd := range w.runnerDefs {
		if rd == st.Defs {
			d.Defs = w.Opts.Defs[i] // the definition in force, as configured
		}
	}
	rel := func(t *time.Time) time.Duration {
		if t == nil {
			return nilDur
		}
		return t.Sub(w.S.Base())
	}
	for _, j := range st.Jobs {
		dj := DJob{
			Idx: jobIndex(j.ID), Pipeline: j.Pipeline, Completed: j.Completed, Canceled: j.Canceled,
			Created: j.Created.Sub(w.S.Base()), Start: rel(j.Start), End: rel(j.End), StartDelay: j.StartDelay,
			LastError: j.LastError, HasSched: j.HasSched, HasTimer: j.HasTimer, User: j.User, Env: j.Env,
		}
		if _, bad := j.Variables[taskctl.JobIDVariableName]; bad {
			dj.Bad = true
		}
		for _, t := range j.Tasks {
			dj.Tasks = append(dj.Tasks, DTask{Name: t.Name, Status: t.Status, HasStart: t.HasStart, HasEnd: t.HasEnd,
				Errored: t.Errored, Canceled: t.Canceled, Skipped: t.Skipped, ExitCode: t.ExitCode, Error: t.Error,
				Deps: t.DependsOn, Script: t.Script, Allow: t.AllowFailure, Env: t.Env})
		}
		for _, g := range w.pollers {
			if g.job == dj.Idx {
				dj.Stages = g.snapshot()
			}
		}
		d.Jobs = append(d.Jobs, dj)
	}
	sort.Slice(d.Jobs, func(a, b int) bool { return d.Jobs[a].Idx < d.Jobs[b].Idx })
	for p, ids := range st.WaitLists {
		l := []int{}
		for _, id := range ids {
			l = append(l, jobIndex(id))
		}
		d.WaitLists[p] = l
	}
	for p, ids := range st.JobsByPipeline {
		l := []int{}
		for _, id := range ids {
			l = append(l, jobIndex(id))
		}
		d.ByPipeline[p] = l
	}
	return d
}

// ---------------------------------------------------------------------------------------------
// the poll loop of taskctl.Scheduler, modelled as blocking (see DESIGN.md 2.2)

type graphReg struct {
	sched     *taskctl.Scheduler
	job       int
	g         *scheduler.ExecutionGraph
	cancelled *int32
	names     []string
	have      bool
	snap      string
	backwards bool
}

var statusRank = map[int32]int{scheduler.StatusWaiting: 0, scheduler.StatusRunning: 1, scheduler.StatusSkipped: 2, scheduler.StatusDone: 2, scheduler.StatusError: 2, scheduler.StatusCanceled: 2}

func (r *graphReg) snapshot() string {
	var sb strings.Builder
	for _, n := range r.names {
		st, _ := r.g.Node(n)
		sb.WriteByte(byte('0' + atomic.LoadInt32(&st.Status)))
	}
	sb.WriteByte('/')
	sb.WriteByte(byte('0' + atomic.LoadInt32(r.cancelled)))
	return sb.String()
}

var curWorld *World

// FreePause is the poll pause used when the hook is called outside a controlled execution
var FreePause = 2 * time.Millisecond

func idleHook(s *taskctl.Scheduler, g *scheduler.ExecutionGraph, cancelled *int32) (time.Duration, bool) {
	vs := vsched.Active()
	w := curWorld
	if vs == nil || w == nil {
		return FreePause, true
	}
	var reg *graphReg
	for _, r := range w.pollers {
		if r.sched == s {
			reg = r
		}
	}
	if reg == nil {
		reg = &graphReg{g: g, cancelled: cancelled, sched: s}
		nodes := g.Nodes()
		for n := range nodes {
			reg.names = append(reg.names, n)
		}
		sort.Strings(reg.names)
		if len(reg.names) > 0 {
			if id, ok := nodes[reg.names[0]].Variables.Get(taskctl.JobIDVariableName).(string); ok {
				if u, err := uuid.FromString(id); err == nil {
					reg.job = jobIndex(u)
				}
			}
		}
		w.pollers = append(w.pollers, reg)
	}
	cur := reg.snapshot()
	if reg.have && cur == reg.snap {
		// The iteration that just ended read exactly reg.snap (statuses are monotone) and changed
		// nothing: every further iteration is the same no-op until a status or the flag changes.
		vs.ParkFunc(func() bool { return reg.snapshot() != cur }, "poll-idle")
		cur = reg.snapshot()
	}
	reg.snap, reg.have = cur, true
	return 0, true
}

// ---------------------------------------------------------------------------------------------
// mock task runner

type runState struct {
	task      string
	inst      int
	wake      int32 // 1 = outcome decided or cancelled
	parked    bool
	decided   bool
	ok        bool
	code      int16
	cancelled bool
	exited    bool
	// cancelPending: the runner was told to stop while this task runs and the scenario lets the environment
	// decide how the process reacts (dies from the signal / handles it and exits non-zero / exits 0)
	cancelPending bool
}

type MockRunner struct {
	w            *World
	inst         int
	job          int
	pipeline     string
	env          map[string]string
	onTaskChange func(t *task.Task)
	cancelled    bool
	cancelCalls  int
	wg           vsched.WaitGroup
	runs         []*runState
	seenTasks    []SeenTask
}

// SeenTask is what the runner was handed for one task (C16)
type SeenTask struct {
	Name     string
	Commands []string
	Env      map[string]interface{}
	Allow    bool
}

func (m *MockRunner) SetOnTaskChange(f func(t *task.Task)) { m.onTaskChange = f }

func (m *MockRunner) notify(t *task.Task) {
	if m.onTaskChange != nil {
		m.onTaskChange(t)
	}
}

func (m *MockRunner) Run(t *task.Task) error {
	w := m.w
	m.wg.Add(1)
	defer m.wg.Done()

	vsched.Point("run.ctxcheck")
	if m.cancelled {
		w.log(Event{Kind: EvRunRefused, Job: m.job, Inst: m.inst, Task: t.Name})
		return context.Canceled
	}
	rs := &runState{task: t.Name, inst: m.inst}
	m.runs = append(m.runs, rs)
	envm := map[string]interface{}{}
	if t.Env != nil {
		envm = t.Env.Map()
	}
	m.seenTasks = append(m.seenTasks, SeenTask{Name: t.Name, Commands: t.Commands, Env: envm, Allow: t.AllowFailure})
	w.log(Event{Kind: EvRunEnter, Job: m.job, Inst: m.inst, Task: t.Name})
	if w.Opts.OutStore != nil {
		if wr, err := w.Opts.OutStore.Writer(jobUUID(m.job).String(), t.Name, "stdout"); err == nil {
			fmt.Fprintf(wr, "output of task %s of job %d\n", t.Name, m.job)
			wr.Close()
		}
	}

	t.Start = w.S.Now()
	m.notify(t)

	if vs := vsched.Active(); vs != nil {
		if m.cancelled && !rs.decided {
			rs.cancelled = true
		} else {
			rs.parked = true
			vs.ParkFlag(&rs.wake, fmt.Sprintf("task %d/%s", m.inst, t.Name))
			rs.parked = false
		}
	} else if !vsched.Aborting() {
		panic("mock runner used outside a controlled execution")
	}

	switch {
	case rs.cancelled:
		t.Errored = true
		t.Error = context.Canceled
		m.notify(t)
		rs.exited = true
		w.log(Event{Kind: EvRunExit, Job: m.job, Inst: m.inst, Task: t.Name, Detail: "canceled"})
		return t.Error
	case rs.ok:
		t.End = w.S.Now()
		m.notify(t)
		rs.exited = true
		w.log(Event{Kind: EvRunExit, Job: m.job, Inst: m.inst, Task: t.Name, Detail: "ok"})
		return nil
	default:
		t.ExitCode = rs.code
		if t.AllowFailure {
			m.notify(t)
			t.End = w.S.Now()
			m.notify(t)
			rs.exited = true
			w.log(Event{Kind: EvRunExit, Job: m.job, Inst: m.inst, Task: t.Name, Detail: "fail-allowed"})
			return nil
		}
		t.Errored = true
		t.Error = fmt.Errorf("exit status %d", rs.code)
		m.notify(t)
		rs.exited = true
		w.log(Event{Kind: EvRunExit, Job: m.job, Inst: m.inst, Task: t.Name, Detail: "fail"})
		return t.Error
	}
}

func (m *MockRunner) Cancel() {
	w := m.w
	vsched.Point("runner.cancel")
	m.cancelCalls++
	w.log(Event{Kind: EvCancelCalled, Job: m.job, Inst: m.inst})
	if !m.cancelled {
		m.cancelled = true
		for _, rs := range m.runs {
			if !rs.decided && !rs.exited {
				if w.CancelOutcomes && rs.parked {
					rs.cancelPending = true
					continue
				}
				rs.cancelled = true
				rs.decided = true
				atomic.StoreInt32(&rs.wake, 1)
			}
		}
	}
	m.wg.Wait()
	w.log(Event{Kind: EvCancelReturn, Job: m.job, Inst: m.inst})
}

func (m *MockRunner) Finish() {
	m.w.log(Event{Kind: EvFinish, Job: m.job, Inst: m.inst})
}

// ---------------------------------------------------------------------------------------------
// recording data store (real codec types, in memory)

type recStore struct {
	w       *World
	initial *store.PersistedData
	saves   []*store.PersistedData
	inner   store.DataStore // optional real store
	// failNext: the next Save fails (a full disk, a revoked mount): nothing reaches the store, the caller gets the error
	failNext bool
}

func (s *recStore) Load() (*store.PersistedData, error) {
	if s.initial != nil {
		return s.initial, nil
	}
	return &store.PersistedData{}, nil
}

func (s *recStore) Save(data *store.PersistedData) error {
	vsched.Point("store.save")
	if s.failNext {
		s.failNext = false
		s.w.log(Event{Kind: EvSave, Detail: "FAILED (injected I/O error)"})
		return errors.New("injected I/O error: the store could not be written")
	}
	cp := &store.PersistedData{Jobs: append([]store.PersistedJob(nil), data.Jobs...)}
	s.saves = append(s.saves, cp)
	s.w.log(Event{Kind: EvSave, Detail: fmt.Sprintf("jobs=%d", len(data.Jobs))})
	if s.inner != nil {
		return s.inner.Save(data)
	}
	return nil
}

// ---------------------------------------------------------------------------------------------
// world

type WorldOpts struct {
	Defs         []*definition.PipelinesDef // definition alphabet; Defs[0] is the initial one
	WithStore    bool
	Initial      *store.PersistedData
	RealStore    store.DataStore
	OutStore     taskctl.OutputStore
	DumpOnUnlock bool
	LogDirPath   string
}

// copyDefs is a deep copy of a definition set
func copyDefs(d *definition.PipelinesDef) *definition.PipelinesDef {
	if d == nil {
		return nil
	}
	c := &definition.PipelinesDef{Pipelines: definition.PipelinesMap{}}
	for n, p := range d.Pipelines {
		q := p
		if p.QueueLimit != nil {
			v := *p.QueueLimit
			q.QueueLimit = &v
		}
		if p.Env != nil {
			q.Env = map[string]string{}
			for k, v := range p.Env {
				q.Env[k] = v
			}
		}
		q.Tasks = map[string]definition.TaskDef{}
		for tn, t := range p.Tasks {
			u := t
			u.Script = append([]string(nil), t.Script...)
			if t.Script != nil && len(t.Script) == 0 {
				u.Script = []string{}
			}
			u.DependsOn = append([]string(nil), t.DependsOn...)
			if t.Env != nil {
				u.Env = map[string]string{}
				for k, v := range t.Env {
					u.Env[k] = v
				}
			}
			q.Tasks[tn] = u
		}
		c.Pipelines[n] = q
	}
	return c
}

type World struct {
	runnerDefs     []*definition.PipelinesDef
	quiescentViol  []Violation
	S              *vsched.Sched
	R              *prunner.PipelineRunner
	Opts           WorldOpts
	Log            []Event
	Mocks          []*MockRunner
	Store          *recStore
	pollers        []*graphReg // registered poll loops (a slice, not a map: it is touched by managed threads and by the explorer)
	Ctx            context.Context
	CancelCtx      context.CancelFunc
	nDrivers       int
	Accepted       int // number of accepted jobs so far (as seen by drivers)
	DefIdx         int
	lastDump       *Dump
	FailOK         bool // environment may let tasks fail
	CancelOutcomes bool // environment decides how a task reacts to being told to stop
	ForcedCtx      context.Context
	ForcedCancel   context.CancelFunc
	forcedDone     bool
	initErr        error
	logsBefore     map[string]string
	pub            sync.Mutex // real lock: orders the construction of the runner before every driver (race build)
}

func (w *World) log(e Event) {
	e.Seq = len(w.Log)
	e.VT = w.S.Elapsed()
	if t := w.S.Me(); t != nil {
		e.Thread = t.Name
	}
	switch e.Kind {
	case EvApiCall, EvApiRet, EvNewRunner, EvFinish, EvUnlock, EvSave:
		// logged inside a critical section of the runner lock or directly after its release without
		// a scheduling point in between: their position in the log is determined by the order of
		// critical sections, which the lock's fingerprint already captures
	default:
		w.S.TouchTrace(vsched.HashString(e.Kind + "|" + e.Task + "|" + e.Detail + "|" + e.Err + fmt.Sprint(e.Job, e.Inst)))
	}
	w.Log = append(w.Log, e)
}

// NewWorld builds a fresh runner under a fresh controlled execution. The runner is constructed
// on a managed thread ("init") which is run to completion before NewWorld returns.
func NewWorld(opts WorldOpts) *World {
	uuid.DefaultGenerator.(*seqGen).reset()
	w := &World{Opts: opts}
	w.S = vsched.New()
	curWorld = w
	w.Ctx, w.CancelCtx = context.WithCancel(context.Background())
	w.ForcedCtx, w.ForcedCancel = context.WithCancel(context.Background())
	var st store.DataStore
	if opts.WithStore {
		w.Store = &recStore{w: w, initial: opts.Initial, inner: opts.RealStore}
		st = w.Store
	}
	var ost taskctl.OutputStore = opts.OutStore
	if ost == nil {
		ost = nopOutputStore{}
	}
	w.S.Spawn("init", "init", func() {
		// the runner gets its own deep copies of the definitions: what the harness keeps (and the oracles read) stays as
		// configured even if production code writes into a slice or map it shares with the definition
		w.runnerDefs = make([]*definition.PipelinesDef, len(opts.Defs))
		for i, d := range opts.Defs {
			w.runnerDefs[i] = copyDefs(d)
		}
		r, err := prunner.NewPipelineRunner(w.Ctx, w.runnerDefs[0], w.createTaskRunner, st, ost)
		if err != nil {
			w.initErr = err
			return
		}
		r.ShutdownPollInterval = 3 * time.Second
		w.R = r
		w.pub.Lock()
		w.pub.Unlock()
	})
	// run init to completion (it only spawns the persist loop)
	for {
		var it *vsched.Thread
		for _, t := range w.S.Enabled() {
			if t.Name == "init" {
				it = t
			}
		}
		if it == nil {
			break
		}
		w.S.Step(it)
	}
	if w.R == nil {
		panic(fmt.Sprintf("NewPipelineRunner failed: %v", w.initErr))
	}
	if true {
		mx := prunner.VerifMx(w.R)
		w.S.OnUnlock = func(obj interface{}) {
			if obj == mx {
				d := w.dump()
				w.lastDump = d
				w.log(Event{Kind: EvUnlock, Dump: d})
			}
		}
	}
	if vsched.RaceBuild {
		// no unsynchronised read of the runner state from the explorer in the race build
		w.lastDump = &Dump{WaitLists: map[string][]int{}, ByPipeline: map[string][]int{}, Defs: opts.Defs[0]}
	} else {
		w.lastDump = w.dump()
	}
	return w
}

func (w *World) Close() {
	w.S.Abort()
	if w.Opts.LogDirPath != "" {
		os.RemoveAll(w.Opts.LogDirPath)
	}
	w.CancelCtx()
	w.ForcedCancel()
	if curWorld == w {
		curWorld = nil
	}
}

func (w *World) createTaskRunner(j *prunner.PipelineJob) taskctl.Runner {
	m := &MockRunner{w: w, inst: len(w.Mocks) + 1, job: jobIndex(j.ID), pipeline: j.Pipeline, env: j.Env}
	w.Mocks = append(w.Mocks, m)
	w.log(Event{Kind: EvNewRunner, Job: m.job, Inst: m.inst})
	return m
}

type nopOutputStore struct{}

type nopWC struct{}

func (nopWC) Write(b []byte) (int, error) { return len(b), nil }
func (nopWC) Close() error                { return nil }
func (nopOutputStore) Writer(jobID, taskName, outputName string) (io.WriteCloser, error) {
	return nopWC{}, nil
}
func (nopOutputStore) Reader(jobID, taskName, outputName string) (io.ReadCloser, error) {
	return nil, errors.New("no output")
}
func (nopOutputStore) Remove(jobID string) error { return nil }

// ---------------------------------------------------------------------------------------------
// driver operations (each runs on a managed thread)

type Op struct {
	Kind     string // S, Sbad, C, R, Save, Shutdown, Read, List
	Pipeline string
	Job      int // for C / Read
	Def      int // for R
	Forced   bool
	Vars     map[string]interface{}
	User     string
	// WaitJob: do not start before this many jobs have been accepted (driver-side precondition)
	WaitAccepted int
	// WaitEvent / WaitEventJob: do not start before an event of this kind has been logged for that job
	WaitEvent    string
	WaitEventJob int
}

func (o Op) String() string {
	switch o.Kind {
	case "S", "Sbad":
		return o.Kind + "(" + o.Pipeline + ")"
	case "C", "Read":
		return fmt.Sprintf("%s(%d)", o.Kind, o.Job)
	case "R":
		return fmt.Sprintf("R(%d)", o.Def)
	case "Shutdown":
		if o.Forced {
			return "Shutdown(forced)"
		}
		return "Shutdown(graceful)"
	}
	return o.Kind
}

func errClass(err error) string {
	switch {
	case err == nil:
		return ""
	case errors.Is(err, prunner.ErrJobNotFound):
		return "notfound"
	case errors.Is(err, prunner.ErrShuttingDown):
		return "shuttingdown"
	case strings.Contains(err.Error(), "queueing disabled"):
		return "noqueue"
	case strings.Contains(err.Error(), "queue limit reached"):
		return "queuefull"
	case strings.Contains(err.Error(), "already completed"):
		return "completed"
	case strings.Contains(err.Error(), "is not defined"):
		return "undefined"
	case errors.Is(err, context.Canceled):
		return "ctxcanceled"
	}
	return "other:" + err.Error()
}

// Do executes one API operation on the calling managed thread and logs call and return
func (w *World) Do(o Op) {
	if o.WaitAccepted > 0 {
		if vs := vsched.Active(); vs != nil && w.Accepted < o.WaitAccepted {
			vs.ParkFunc(func() bool { return w.Accepted >= o.WaitAccepted }, "wait-accepted")
		}
	}
	if o.WaitEvent != "" {
		seen := func() bool {
			for _, e := range w.Log {
				if e.Kind == o.WaitEvent && e.Job == o.WaitEventJob {
					return true
				}
			}
			return false
		}
		if vs := vsched.Active(); vs != nil && !seen() {
			vs.ParkFunc(seen, "wait-event")
		}
	}
	w.log(Event{Kind: EvApiCall, Detail: o.String(), Job: o.Job})
	switch o.Kind {
	case "S", "Sbad":
		vars := o.Vars
		if o.Kind == "Sbad" {
			vars = map[string]interface{}{taskctl.JobIDVariableName: "x"}
		}
		j, err := w.R.ScheduleAsync(o.Pipeline, prunner.ScheduleOpts{Variables: vars, User: o.User})
		idx := 0
		if err == nil {
			idx = jobIndex(j.ID)
			w.Accepted++
		}
		w.log(Event{Kind: EvApiRet, Detail: o.String(), Job: idx, Err: errClass(err)})
	case "C":
		err := w.R.CancelJob(jobUUID(o.Job))
		w.log(Event{Kind: EvApiRet, Detail: o.String(), Job: o.Job, Err: errClass(err)})
	case "R":
		w.R.ReplaceDefinitions(w.runnerDefs[o.Def])
		w.DefIdx = o.Def
		w.log(Event{Kind: EvApiRet, Detail: o.String()})
	case "Save":
		w.R.SaveToStore()
		w.log(Event{Kind: EvApiRet, Detail: o.String()})
	case "Shutdown":
		ctx := context.Background()
		if o.Forced {
			ctx = w.ForcedCtx
		}
		err := w.R.Shutdown(ctx)
		w.log(Event{Kind: EvShutdownRet, Detail: o.String(), Err: errClass(err), Dump: w.dump()})
	case "Read":
		var got *prunner.VerifJob
		err := w.R.ReadJob(jobUUID(o.Job), func(j *prunner.PipelineJob) {
			v := prunner.VerifJobOf(j)
			got = &v
		})
		d := ""
		if got != nil {
			d = fmt.Sprintf("completed=%v canceled=%v started=%v", got.Completed, got.Canceled, got.Start != nil)
		}
		w.log(Event{Kind: EvApiRet, Detail: o.String() + " " + d, Job: o.Job, Err: errClass(err)})
	case "List":
		n := 0
		w.R.IterateJobs(func(j *prunner.PipelineJob) {
			vsched.Point("iterate.cb")
			n++
		})
		pl := w.R.ListPipelines()
		w.log(Event{Kind: EvApiRet, Detail: fmt.Sprintf("List jobs=%d pipelines=%v", n, pl)})
	default:
		panic("unknown op " + o.Kind)
	}
}

// SpawnDriver starts a managed thread that performs the given operations in order
func (w *World) SpawnDriver(ops ...Op) *vsched.Thread {
	w.nDrivers++
	name := fmt.Sprintf("drv%d", w.nDrivers)
	return w.S.Spawn(name, "driver", func() {
		w.pub.Lock()
		w.pub.Unlock()
		for _, o := range ops {
			w.Do(o)
		}
	})
}

// ---------------------------------------------------------------------------------------------
// environment events

type EnvEvent struct {
	Kind string // "done", "fail", "tick", "adv", "ctx"
	Inst int
	Task string
	D    time.Duration
}

func (e EnvEvent) String() string {
	switch e.Kind {
	case "done", "fail", "die", "exitnz", "exit0":
		return fmt.Sprintf("%s(%d/%s)", e.Kind, e.Inst, e.Task)
	case "adv":
		return fmt.Sprintf("adv(%v)", e.D)
	}
	return e.Kind
}

// ParkedRuns lists the mock runs that wait for an outcome, in canonical order
func (w *World) ParkedRuns() []*runState {
	var res []*runState
	for _, m := range w.Mocks {
		for _, rs := range m.runs {
			if rs.parked && !rs.decided {
				res = append(res, rs)
			}
		}
	}
	return res
}

// Apply performs an environment event (on the explorer goroutine; all threads are parked)
func (w *World) Apply(e EnvEvent) bool {
	switch e.Kind {
	case "done", "fail":
		for _, rs := range w.ParkedRuns() {
			if rs.inst == e.Inst && rs.task == e.Task {
				rs.decided = true
				rs.ok = e.Kind == "done"
				if !rs.ok {
					rs.code = 3
				}
				w.log(Event{Kind: EvEnv, Detail: e.String(), Inst: e.Inst, Task: e.Task, Job: w.Mocks[e.Inst-1].job})
				atomic.StoreInt32(&rs.wake, 1)
				return true
			}
		}
		return false
	case "die", "exitnz", "exit0":
		for _, rs := range w.ParkedRuns() {
			if rs.inst == e.Inst && rs.task == e.Task && rs.cancelPending {
				rs.decided = true
				switch e.Kind {
				case "die":
					rs.cancelled = true
				case "exitnz":
					rs.ok, rs.code = false, 3
				case "exit0":
					rs.ok = true
				}
				w.log(Event{Kind: EvEnv, Detail: e.String(), Inst: e.Inst, Task: e.Task, Job: w.Mocks[e.Inst-1].job})
				atomic.StoreInt32(&rs.wake, 1)
				return true
			}
		}
		return false
	case "tick":
		d, ok := w.S.NextDeadline()
		if !ok {
			return false
		}
		w.log(Event{Kind: EvEnv, Detail: fmt.Sprintf("tick(+%v)", d)})
		// Timers whose deadlines lie within a fraction of a millisecond of each other (jobs accepted back to back) expire
		// "together": all of them become runnable and the explorer chooses the order of their callbacks, as the Go
		// runtime may. (Delays and clock steps are multiples of 1 ms, the oracles allow 1 ms.)
		w.S.Advance(d + 200*time.Microsecond)
		return true
	case "adv":
		w.log(Event{Kind: EvEnv, Detail: e.String()})
		w.S.Advance(e.D)
		return true
	case "ctx":
		if w.ForcedCancel == nil || w.forcedDone {
			return false
		}
		w.forcedDone = true
		w.log(Event{Kind: EvEnv, Detail: "ctx-cancel"})
		w.ForcedCancel()
		return true
	}
	panic("unknown env event " + e.Kind)
}
