package main

import (
	"fmt"
	"sort"
	"time"
)

const dly = 10 * time.Second

// baseGrid is G of DESIGN.md: conc x ql x strategy x delay (minus what the validator rejects)
func baseGrid(graph map[string][]string, gname string) []PipeCfg {
	var res []PipeCfg
	for _, conc := range []int{1, 2} {
		for _, ql := range []int{-1, 0, 1, 2} {
			for _, repl := range []bool{false, true} {
				for _, d := range []time.Duration{0, dly} {
					if d > 0 && ql == 0 {
						continue
					}
					res = append(res, PipeCfg{Conc: conc, QL: ql, Replace: repl, Delay: d, Graph: graph})
				}
			}
		}
	}
	return res
}

func cfgName(c PipeCfg) string { return c.String() }

func props(ps ...string) map[string]bool {
	m := map[string]bool{}
	for _, p := range ps {
		m[p] = true
	}
	return m
}

// x2Configs returns the X2 configurations of a property
func x2Configs(prop, tier string) []*X2Config {
	var res []*X2Config
	thorough := tier == "thorough"
	depth := func(q, t int) int {
		if thorough {
			return t
		}
		return q
	}
	adv := []time.Duration{dly / 2, dly}
	switch prop {
	case "C01", "C02", "C08", "C03", "C05", "C06", "C15":
		graphs := []struct {
			n string
			g map[string][]string
		}{{"one", graphOne}}
		if thorough || prop == "C15" {
			graphs = append(graphs, struct {
				n string
				g map[string][]string
			}{"chain", graphChain})
		}
		for _, g := range graphs {
			for _, pc := range baseGrid(g.g, g.n) {
				if prop == "C06" && (pc.QL >= 0 || pc.Replace) {
					continue
				}
				c := &X2Config{Name: prop + "/" + cfgName(pc), Cfgs: []PipeCfg{pc}, Depth: depth(7, 9), Sbad: true, FailOK: true, Cancel: true, Symmetry: true, AdvSteps: adv, Drain: true}
				switch prop {
				case "C01":
					c.Props = props("C01", "C02")
					// reload of the limit
					other := pc
					other.Conc = 3 - pc.Conc
					c.Cfgs = append(c.Cfgs, other)
					c.Reload = true
				case "C02":
					c.Props = props("C02")
				case "C08":
					c.Props = props("C08")
					if g.n == "one" {
						c.Cfgs[0].Graph = graphChain
						c.Name = prop + "/" + cfgName(c.Cfgs[0])
					}
				case "C03":
					c.Props = props("C03")
				case "C05":
					c.Props = props("C05")
					c.FailOK = false
					c.Drain = false
				case "C06":
					c.Props = props("C06")
					c.Depth = depth(8, 10)
				case "C15":
					c.Props = props("C15")
					c.Symmetry = false
					c.Drain = false
					c.Depth = depth(7, 8)
				}
				if pc.Conc == 2 && !thorough && c.Depth > 5 {
					c.Depth--
				}
				res = append(res, c)
			}
		}
		if prop != "C02" && prop != "C08" {
			// every history up to a small depth, without merging states: a flag, cache or counter a change may add is state
			// the key cannot see; without merging it cannot hide a history either
			for _, pc := range []PipeCfg{{Conc: 1, QL: 1, Graph: graphOne}, {Conc: 1, QL: 1, Replace: true, Delay: dly, Graph: graphOne}, {Conc: 2, QL: -1, Graph: graphOne}} {
				c := &X2Config{Name: prop + "/every-history/" + cfgName(pc), Cfgs: []PipeCfg{pc}, Depth: depth(7, 8), NoDedup: true, Sbad: prop != "C15", FailOK: prop != "C05", Cancel: true, Symmetry: false,
					AdvSteps: []time.Duration{dly}, Drain: prop != "C05" && prop != "C15", Props: props(prop)}
				if prop == "C01" {
					c.Props = props("C01", "C02")
				}
				res = append(res, c)
			}
		}
		if prop == "C05" || prop == "C03" {
			// requests that carry job variables, a different value each time, next to requests without: admission, replacement
			// and the queue may not depend on what a request carries
			for _, pc := range baseGrid(graphOne, "one") {
				if pc.Conc == 2 && !(pc.Replace && pc.QL != 0) {
					continue
				}
				if prop == "C03" && !pc.Replace {
					continue
				}
				c := &X2Config{Name: prop + "/requests-with-variables/" + cfgName(pc), Cfgs: []PipeCfg{pc}, Depth: depth(5, 6), Svar: true, Cancel: prop == "C05", Symmetry: true, AdvSteps: adv, Drain: prop == "C03", Props: props(prop)}
				res = append(res, c)
			}
		}
		if prop == "C05" {
			// reloads of the queue limit alone, under both strategies (a limit lowered to 0 while a job waits)
			for _, repl := range []bool{false, true} {
				for _, q := range [][2]int{{1, 0}, {2, 1}, {0, 1}} {
					a := PipeCfg{Conc: 1, QL: q[0], Replace: repl, Graph: graphOne}
					b := PipeCfg{Conc: 1, QL: q[1], Replace: repl, Graph: graphOne}
					res = append(res, &X2Config{Name: fmt.Sprintf("C05/reload-queue-limit-%d-to-%d/replace=%v", q[0], q[1], repl), Cfgs: []PipeCfg{a, b}, Depth: depth(6, 7), Cancel: true, Reload: true, Symmetry: true, Props: props("C05")})
				}
			}
		}
		if prop == "C01" || prop == "C03" || prop == "C05" || prop == "C06" {
			// a reload that changes several aspects at once: append -> replace, concurrency 1 -> 2, delay added
			a := PipeCfg{Conc: 1, QL: -1, Graph: graphOne}
			b := PipeCfg{Conc: 2, QL: -1, Replace: true, Delay: dly, Graph: graphOne}
			res = append(res, &X2Config{Name: prop + "/reload-append-to-replace+conc+delay", Cfgs: []PipeCfg{a, b}, Depth: depth(7, 8), Cancel: prop != "C05", Reload: true, Symmetry: true, AdvSteps: adv, Drain: prop != "C05",
				Props: map[string]bool{"C01": prop == "C01", "C02": prop == "C01", "C03": prop == "C03", "C05": prop == "C05", "C06": prop == "C06"}})
		}
		if prop == "C02" || prop == "C15" {
			// a reload that keeps the task names and rewires the dependencies (the reversed graph is acyclic too): jobs
			// accepted afterwards follow the new graph - accepted, dependencies first, tasks listed after their dependencies
			rev := func(g map[string][]string) map[string][]string {
				r := map[string][]string{}
				for t := range g {
					r[t] = nil
				}
				for t, deps := range g {
					for _, d := range deps {
						r[d] = append(r[d], t)
					}
				}
				for t := range r {
					sort.Strings(r[t])
				}
				return r
			}
			for _, g := range []struct {
				n string
				g map[string][]string
				d int
			}{{"chain", graphChain, 5}, {"diamond+isolated", map[string][]string{"a": nil, "b": {"a"}, "c": {"a"}, "d": {"b", "c"}, "e": nil}, 3}} {
				a := PipeCfg{Conc: 2, QL: -1, Graph: g.g} // concurrency 2: the job accepted after the reload starts next to the first one
				b := PipeCfg{Conc: 2, QL: -1, Graph: rev(g.g)}
				if g.n == "diamond+isolated" {
					b.Graph["d"] = []string{"e"} // the formerly isolated task becomes the root: e -> d -> {b, c} -> a
				}
				res = append(res, &X2Config{Name: prop + "/reload-reverses-dependencies/" + g.n, Cfgs: []PipeCfg{a, b}, Depth: g.d, Reload: true, Symmetry: false, Drain: true, Props: props(prop)})
			}
		}
		if prop == "C02" {
			// a diamond whose topological order is not its name order, with saves while a job of it waits (a save must not
			// touch the task list of a live job)
			g := map[string][]string{"checkout": nil, "setup": {"checkout"}, "build_api": {"setup"}, "build_ui": {"setup"}, "deploy": {"build_api", "build_ui"}}
			pc := PipeCfg{Conc: 1, QL: -1, Graph: g}
			res = append(res, &X2Config{Name: "C02/saves-while-a-diamond-waits", Cfgs: []PipeCfg{pc}, Prefix: []XEvent{{Kind: "S", P: "p"}, {Kind: "S", P: "p"}}, Depth: depth(6, 7), Save: true, Symmetry: false, Drain: true, Props: props("C02")})
		}
		if prop == "C06" || prop == "C03" || prop == "C01" {
			// saves with retention reorder the runner's job list (a removed job is replaced by the last one): from a state
			// with one finished job, one running and three waiting, every history of saves, cancels, completions and requests
			for _, conc := range []int{1, 2} {
				pc := PipeCfg{Conc: conc, QL: -1, Graph: graphOne, RetCount: 1}
				pre := []XEvent{{Kind: "S", P: "p"}, {Kind: "S", P: "p"}, {Kind: "S", P: "p"}, {Kind: "S", P: "p"}, {Kind: "S", P: "p"}, {Kind: "Dok", Job: 1, Task: "a"}}
				if conc == 2 {
					pre = append([]XEvent{{Kind: "S", P: "p"}}, pre...)
				}
				res = append(res, &X2Config{Name: fmt.Sprintf("%s/retention-reorders-job-list/conc%d", prop, conc), Cfgs: []PipeCfg{pc}, Prefix: pre, Depth: depth(4, 5), Cancel: true, Save: true, FailOK: true, Symmetry: false, Drain: true,
					Props: map[string]bool{"C01": prop == "C01", "C02": prop == "C01", "C03": prop == "C03", "C06": prop == "C06"}})
			}
		}
		if prop == "C01" {
			// a reload that removes the pipeline and a later one that brings it back, with saves in between
			with := mkDefs(map[string]PipeCfg{"p": {Conc: 1, QL: -1, Graph: graphOne}, "z": {Conc: 1, QL: -1, Graph: graphOne}})
			without := mkDefs(map[string]PipeCfg{"z": {Conc: 1, QL: -1, Graph: graphOne}})
			res = append(res, &X2Config{Name: "C01/pipeline-removed-and-readded", DefsOverride: []*definitionPipelinesDef{with, without}, Pipes: []string{"p"},
				Depth: depth(6, 7), Cancel: true, Reload: true, Save: true, Symmetry: false, Drain: true, Props: props("C01", "C02")})
		}
		if prop == "C03" {
			// reload alphabets
			base := PipeCfg{Conc: 1, QL: -1, Graph: graphOne}
			mk := func(name string, a, b PipeCfg) {
				res = append(res, &X2Config{Name: "C03/reload-" + name, Cfgs: []PipeCfg{a, b}, Depth: depth(7, 9), Sbad: false, FailOK: false, Cancel: true, Reload: true, Symmetry: true, AdvSteps: adv, Drain: true, Props: props("C03")})
			}
			d10, d20 := base, base
			d10.Delay, d20.Delay = dly, 2*dly
			c2 := base
			c2.Conc = 2
			q2, q1 := base, base
			q2.QL, q1.QL = 2, 1
			mk("delay-0-10", base, d10)
			mk("delay-10-0", d10, base)
			mk("delay-10-20", d10, d20)
			mk("conc-1-2", base, c2)
			mk("conc-2-1", c2, base)
			mk("ql-2-1", q2, q1)
			q0 := base
			q0.QL = 0
			mk("ql-unset-0", base, q0)
			mk("ql-2-0", q2, q0)
			dq := q2
			dq.Delay = dly
			mk("delayed-ql-2-to-0", dq, q0)
		}
	case "C07":
		for _, conc := range []int{1, 2} {
			for _, ql := range []int{1, 2, -1} {
				for _, repl := range []bool{false, true} {
					pc := PipeCfg{Conc: conc, QL: ql, Replace: repl, Delay: dly, Graph: graphOne}
					res = append(res, &X2Config{Name: "C07/" + cfgName(pc), Cfgs: []PipeCfg{pc}, Depth: depth(7, 9), FailOK: false, Cancel: true, Symmetry: true,
						AdvSteps: []time.Duration{dly / 2, dly - time.Millisecond, time.Millisecond, dly}, Drain: true, Props: props("C07")})
				}
			}
		}
		// reloads that remove / shorten / add the delay: the lower bound is the delay the job was accepted with
		for _, v := range []struct {
			n    string
			a, b time.Duration
		}{{"delay-10-0", dly, 0}, {"delay-20-10", 2 * dly, dly}, {"delay-0-10", 0, dly}} {
			pa := PipeCfg{Conc: 1, QL: -1, Graph: graphOne, Delay: v.a}
			pb := PipeCfg{Conc: 1, QL: -1, Graph: graphOne, Delay: v.b}
			res = append(res, &X2Config{Name: "C07/reload-" + v.n, Cfgs: []PipeCfg{pa, pb}, Depth: depth(7, 9), Cancel: true, Reload: true, Symmetry: true,
				AdvSteps: []time.Duration{dly / 2, dly}, Drain: true, Props: props("C07")})
		}
		// delayed jobs with a store, retention and saves in the history (a save must not touch jobs that still wait)
		{
			pc := PipeCfg{Conc: 1, QL: -1, Graph: graphOne, Delay: dly, RetCount: 1}
			res = append(res, &X2Config{Name: "C07/retention+saves/" + cfgName(pc), Cfgs: []PipeCfg{pc}, Depth: depth(6, 7), Cancel: true, Save: true, Symmetry: false,
				AdvSteps: []time.Duration{dly / 2, dly}, Drain: true, Props: props("C07")})
		}
		// replace without delay
		for _, conc := range []int{1, 2} {
			pc := PipeCfg{Conc: conc, QL: 1, Replace: true, Graph: graphOne}
			res = append(res, &X2Config{Name: "C07/" + cfgName(pc), Cfgs: []PipeCfg{pc}, Depth: depth(7, 9), Cancel: true, Symmetry: true, AdvSteps: adv, Drain: true, Props: props("C07")})
		}
	case "C16":
		base := PipeCfg{Conc: 1, QL: -1, Graph: graphChain, Env: map[string]string{"E": "1"}, TaskEnv: map[string]map[string]string{"a": {"T": "1"}}}
		variants := map[string]func(c *PipeCfg){
			"task-added":   func(c *PipeCfg) { c.Graph = map[string][]string{"a": nil, "b": {"a"}, "c": {"b"}} },
			"task-removed": func(c *PipeCfg) { c.Graph = map[string][]string{"a": nil} },
			"rewired":      func(c *PipeCfg) { c.Graph = map[string][]string{"a": {"b"}, "b": nil} },
			"script":       func(c *PipeCfg) { c.Script = map[string][]string{"a": {"other"}} },
			"pipe-env":     func(c *PipeCfg) { c.Env = map[string]string{"E": "2"} },
			"task-env":     func(c *PipeCfg) { c.TaskEnv = map[string]map[string]string{"a": {"T": "2"}} },
			"delay-added":  func(c *PipeCfg) { c.Delay = dly },
			"conc":         func(c *PipeCfg) { c.Conc = 2 },
			"ql":           func(c *PipeCfg) { c.QL = 1 },
			"allow":        func(c *PipeCfg) { c.Allow = map[string]bool{"a": true} },
		}
		noenv := base
		noenv.Env = nil
		noenv.TaskEnv = nil
		withenv := noenv
		withenv.Env = map[string]string{"E": "added"}
		withenv.TaskEnv = map[string]map[string]string{"a": {"T": "added"}}
		res = append(res, &X2Config{Name: "C16/env-added-to-a-definition-without-env", Cfgs: []PipeCfg{noenv, withenv}, Depth: depth(7, 8), Reload: true, Symmetry: true, AdvSteps: adv, Drain: true, Props: props("C16", "C02")})
		names := []string{"task-added", "task-removed", "rewired", "script", "pipe-env", "task-env", "delay-added", "conc", "ql", "allow"}
		for _, n := range names {
			v := base
			variants[n](&v)
			res = append(res, &X2Config{Name: "C16/" + n, Cfgs: []PipeCfg{base, v}, Depth: depth(7, 8), FailOK: n == "allow", Cancel: false, Reload: true, Symmetry: true, AdvSteps: adv, Drain: true, Props: props("C16", "C02")})
		}
		// delay removed / changed: start from a delayed definition
		d10 := base
		d10.Delay = dly
		d20 := base
		d20.Delay = 2 * dly
		// allow_failure of a task flipped (both directions) while a job with two independent tasks runs: the failure handling
		// of that job follows the definition it was accepted under
		{
			pa := PipeCfg{Conc: 1, QL: -1, Graph: graphPar}
			pb := pa
			pb.Allow = map[string]bool{"a": true}
			for _, v := range []struct {
				n    string
				x, y PipeCfg
			}{{"allow-set-parallel-tasks", pa, pb}, {"allow-cleared-parallel-tasks", pb, pa}} {
				res = append(res, &X2Config{Name: "C16/" + v.n, Cfgs: []PipeCfg{v.x, v.y}, Depth: depth(5, 6), FailOK: true, Reload: true, Symmetry: true, Drain: true, Props: props("C16", "C02", "C08")})
			}
		}
		// the queue is switched off (queue_limit 0) while jobs wait - also jobs whose delay timer is pending, after the delay
		// was dropped together with the queue (a delay needs a queue): the jobs accepted before must still run
		qz := base
		qz.QL = 0
		res = append(res, &X2Config{Name: "C16/ql-to-zero", Cfgs: []PipeCfg{base, qz}, Depth: depth(7, 8), Reload: true, Symmetry: true, AdvSteps: adv, Drain: true, Props: props("C16", "C02", "C03")})
		dq := base
		dq.Delay = dly
		dq.QL = 2
		res = append(res, &X2Config{Name: "C16/delayed-queue-to-ql-zero", Cfgs: []PipeCfg{dq, qz}, Depth: depth(6, 7), Reload: true, Symmetry: true, AdvSteps: adv, Drain: true, Props: props("C16", "C02", "C03")})
		res = append(res, &X2Config{Name: "C16/delay-removed", Cfgs: []PipeCfg{d10, base}, Depth: depth(7, 8), Reload: true, Symmetry: true, AdvSteps: adv, Drain: true, Props: props("C16", "C02")})
		res = append(res, &X2Config{Name: "C16/delay-changed", Cfgs: []PipeCfg{d10, d20}, Depth: depth(7, 8), Reload: true, Symmetry: true, AdvSteps: adv, Drain: true, Props: props("C16", "C02")})
	}
	if prop == "C11" {
		// "while the runner is alive, every acknowledged change reaches the store within the persist interval without an
		// explicit save": histories of requests, cancels, completions and clock steps with the persist loop running
		for _, pc := range []PipeCfg{{Conc: 1, QL: -1, Graph: graphOne}, {Conc: 1, QL: 1, Replace: true, Delay: dly, Graph: graphOne}, {Conc: 2, QL: -1, Graph: graphChain}} {
			res = append(res, &X2Config{Name: "C11/persist-interval/" + cfgName(pc), Cfgs: []PipeCfg{pc}, Depth: depth(5, 6), Cancel: true, FailOK: true, Store: true, AdvAlways: true, Symmetry: false,
				AdvSteps: []time.Duration{2 * time.Second, 4 * time.Second}, Props: props("C11persist")})
		}
	}
	if prop == "C11" {
		// the store after a save, also when the save purges the last jobs (their pipeline was dropped by a reload)
		with := mkDefs(map[string]PipeCfg{"p": {Conc: 1, QL: -1, Graph: graphOne}, "z": {Conc: 1, QL: -1, Graph: graphOne}})
		without := mkDefs(map[string]PipeCfg{"z": {Conc: 1, QL: -1, Graph: graphOne}})
		res = append(res, &X2Config{Name: "C11/store-after-save/pipeline-dropped", DefsOverride: []*definitionPipelinesDef{with, without}, Pipes: []string{"p"},
			Depth: depth(5, 6), Cancel: true, FailOK: true, Reload: true, Save: true, Symmetry: false, Props: props("C11store")})
	}
	if prop == "C12" {
		res = c12Configs(tier)
	}
	if prop == "C15" {
		// "every accepted job is reported ... until retention removes it": saves with retention configured
		for _, c := range c12Configs(tier) {
			if c.Initial != nil {
				continue
			}
			c.Name = "C15/" + c.Name
			c.Props = props("C15ret", "C15") // incl. the listing after a reload that removes pipeline q
			c.LogDir = false
			res = append(res, c)
		}
	}
	if prop == "C10" {
		for _, conc := range []int{1, 2} {
			for _, v := range []struct {
				n string
				c PipeCfg
			}{{"plain", PipeCfg{QL: -1}}, {"replace+delay", PipeCfg{QL: 1, Replace: true, Delay: dly}}} {
				for _, g := range []struct {
					n string
					g map[string][]string
				}{{"one", graphOne}, {"chain", graphChain}, {"no-tasks", map[string][]string{}}, {"chain-against-name-order", map[string][]string{"a": {"b"}, "b": nil}}} {
					if (g.n == "no-tasks" || g.n == "chain-against-name-order") && (conc == 2 || v.n != "plain") {
						continue
					}
					pc := v.c
					pc.Conc = conc
					pc.Graph = g.g
					dd := depth(6, 7)
					if pc.Delay > 0 {
						dd = depth(5, 7) // every restart of a delayed configuration waits for real (scaled) timers
					}
					res = append(res, &X2Config{Name: "C10/" + cfgName(pc), Cfgs: []PipeCfg{pc}, Depth: dd, Sbad: true, FailOK: true, Cancel: true, Symmetry: false, AdvSteps: adv, Restart: true, Props: props()})
				}
			}
		}
	}
	if prop == "C10" {
		// a pipeline removed by a reload, with jobs of it in every state: what is reported before the restart is what is
		// reported after it
		with := mkDefs(map[string]PipeCfg{"p": {Conc: 1, QL: -1, Graph: graphOne}, "z": {Conc: 1, QL: -1, Graph: graphOne}})
		without := mkDefs(map[string]PipeCfg{"z": {Conc: 1, QL: -1, Graph: graphOne}})
		res = append(res, &X2Config{Name: "C10/pipeline-removed-by-reload", DefsOverride: []*definitionPipelinesDef{with, without}, Pipes: []string{"p"},
			Depth: depth(5, 6), Cancel: true, FailOK: true, Reload: true, Symmetry: false, Restart: true, Props: props()})
	}
	if prop == "C08" {
		// jobs with two independent tasks that are queued before they run (concurrency 1), every history without merging:
		// the failure handling of a job that started from the wait list is that of a job that started at once
		for _, cont := range []bool{false, true} {
			pc := PipeCfg{Conc: 1, QL: -1, Graph: graphPar, Continue: cont}
			res = append(res, &X2Config{Name: fmt.Sprintf("C08/every-history/queued-jobs-with-parallel-tasks/continue=%v", cont), Cfgs: []PipeCfg{pc}, Depth: depth(6, 7), NoDedup: true, FailOK: true, Symmetry: false, Drain: true, Props: props("C08")})
		}
	}
	if prop == "C08" {
		// a reload that flips allow_failure of a task while a job with two independent tasks runs
		pa := PipeCfg{Conc: 1, QL: -1, Graph: graphPar}
		pb := pa
		pb.Allow = map[string]bool{"a": true}
		res = append(res, &X2Config{Name: "C08/reload-sets-allow-failure", Cfgs: []PipeCfg{pa, pb}, Depth: depth(5, 6), FailOK: true, Reload: true, Symmetry: true, Drain: true, Props: props("C08")})
		res = append(res, &X2Config{Name: "C08/reload-clears-allow-failure", Cfgs: []PipeCfg{pb, pa}, Depth: depth(5, 6), FailOK: true, Reload: true, Symmetry: true, Drain: true, Props: props("C08")})
	}
	if prop == "C07" || prop == "C16" {
		// a reload from append to replace (also with a delay) while several jobs wait: the request accepted afterwards
		// replaces the newest waiting job, the others keep their places
		a := PipeCfg{Conc: 1, QL: -1, Graph: graphOne}
		b := PipeCfg{Conc: 1, QL: -1, Replace: true, Graph: graphOne}
		bd := PipeCfg{Conc: 1, QL: -1, Replace: true, Delay: dly, Graph: graphOne}
		for _, v := range []struct {
			n string
			c PipeCfg
		}{{"replace", b}, {"replace+delay", bd}} {
			res = append(res, &X2Config{Name: prop + "/reload-append-to-" + v.n, Cfgs: []PipeCfg{a, v.c}, Depth: depth(7, 8), Cancel: true, Reload: true, Symmetry: true, AdvSteps: []time.Duration{dly / 2, dly}, Drain: true,
				Props: props(prop, "C02")})
		}
	}
	if prop == "C12" {
		// from a state with one running and two waiting jobs of the single-slot pipeline: cancels and saves in every order
		for _, count := range []int{1, 2} {
			q := PipeCfg{Conc: 1, QL: -1, Graph: graphOne, RetCount: count}
			res = append(res, &X2Config{Name: fmt.Sprintf("C12/count=%d from one running, two waiting", count), DefsOverride: []*definitionPipelinesDef{mkDefs(map[string]PipeCfg{"q": q})}, Pipes: []string{"q"},
				Prefix: []XEvent{{Kind: "S", P: "q"}, {Kind: "S", P: "q"}, {Kind: "S", P: "q"}}, Depth: depth(4, 5), Cancel: true, FailOK: true, Save: true, Symmetry: false, NoDedup: true, Props: props("C12")})
		}
	}
	if prop == "C16" {
		// the replace strategy builds the new job next to the one it replaces: the reload must still govern it
		base := PipeCfg{Conc: 1, QL: 1, Replace: true, Graph: graphChain, Env: map[string]string{"E": "1"}}
		for _, v := range []struct {
			n string
			f func(c *PipeCfg)
		}{{"script", func(c *PipeCfg) { c.Script = map[string][]string{"a": {"other"}} }}, {"task-added", func(c *PipeCfg) { c.Graph = map[string][]string{"a": nil, "b": {"a"}, "c": {"b"}} }}, {"pipe-env", func(c *PipeCfg) { c.Env = map[string]string{"E": "2"} }}} {
			o := base
			v.f(&o)
			res = append(res, &X2Config{Name: "C16/replace-strategy/" + v.n, Cfgs: []PipeCfg{base, o}, Depth: depth(6, 7), Reload: true, Symmetry: true, AdvSteps: adv, Drain: true, Props: props("C16", "C02")})
		}
	}
	for _, c := range res {
		_ = fmt.Sprint(c.Name)
	}
	return res
}
