package main

// c10.go: restart from a snapshot persisted at any state of the X2 graph (real JSON store on a
// temp directory, real server JSON for the reports), plus the codec sweep over variable values.

import (
	"bytes"
	"context"
	stdjson "encoding/json"
	"fmt"
	"math/big"
	"net/http"
	"net/http/httptest"
	"os"
	"reflect"
	"sort"
	"strings"
	"time"

	"github.com/go-chi/jwtauth/v5"
	"github.com/taskctl/taskctl/pkg/task"

	"github.com/Flowpack/prunner"
	"github.com/Flowpack/prunner/server"
	"github.com/Flowpack/prunner/store"
	"github.com/Flowpack/prunner/taskctl"
	"github.com/Flowpack/prunner/zverif/vsched"
)

type apiReport struct {
	Jobs      map[string]map[string]interface{} // id -> /job/detail JSON
	Order     []string                          // ids in /pipelines/jobs order
	Pipelines map[string][2]bool                // name -> schedulable, running
	Dups      []string
}

func validToken() string {
	_, s, _ := jwtauth.New("HS256", []byte(jwtSecret), nil).Encode(map[string]interface{}{"sub": "verif", "exp": time.Now().Add(24 * time.Hour).Unix()})
	return s
}

func apiGet(h http.Handler, method, url, body string) (int, []byte) {
	req := httptest.NewRequest(method, url, bytes.NewBufferString(body))
	req.Header.Set("Authorization", "Bearer "+validToken())
	rec := httptest.NewRecorder()
	h.ServeHTTP(rec, req)
	return rec.Code, rec.Body.Bytes()
}

func decodeJSON(b []byte) interface{} {
	var v interface{}
	d := stdjson.NewDecoder(bytes.NewReader(b))
	d.UseNumber()
	if err := d.Decode(&v); err != nil {
		return fmt.Sprintf("<undecodable: %v: %s>", err, head(b, 100))
	}
	return v
}

// reportOf reads the complete API view of a runner through the real server handlers
func reportOf(r *prunner.PipelineRunner) apiReport {
	noLog := func(next http.Handler) http.Handler { return next }
	h := server.NewServer(r, memOutputStore{}, noLog, jwtauth.New("HS256", []byte(jwtSecret), nil), false)
	rep := apiReport{Jobs: map[string]map[string]interface{}{}, Pipelines: map[string][2]bool{}}
	_, b := apiGet(h, "GET", "/pipelines/jobs", "")
	if m, ok := decodeJSON(b).(map[string]interface{}); ok {
		if js, ok := m["jobs"].([]interface{}); ok {
			for _, j := range js {
				jm, _ := j.(map[string]interface{})
				id, _ := jm["id"].(string)
				if _, dup := rep.Jobs[id]; dup {
					rep.Dups = append(rep.Dups, id)
				}
				rep.Order = append(rep.Order, id)
				_, db := apiGet(h, "GET", "/job/detail?id="+id, "")
				dm, _ := decodeJSON(db).(map[string]interface{})
				rep.Jobs[id] = dm
				if !reflect.DeepEqual(dm, jm) {
					rep.Dups = append(rep.Dups, "detail-differs-from-list:"+id)
				}
			}
		}
		if ps, ok := m["pipelines"].([]interface{}); ok {
			for _, p := range ps {
				pm, _ := p.(map[string]interface{})
				n, _ := pm["pipeline"].(string)
				s, _ := pm["schedulable"].(bool)
				ru, _ := pm["running"].(bool)
				rep.Pipelines[n] = [2]bool{s, ru}
			}
		}
	}
	return rep
}

type nullRunner struct{ cb func(t *task.Task) }

func (n *nullRunner) SetOnTaskChange(f func(t *task.Task)) { n.cb = f }
func (n *nullRunner) Run(t *task.Task) error               { return nil }
func (n *nullRunner) Cancel()                              {}
func (n *nullRunner) Finish()                              {}

// restartPhase1 (inside the controlled world, all threads parked): save the live runner to a real
// JSON store in a temp directory and read its complete API report.
type restartCtx struct {
	dir    string
	a      apiReport
	before *Dump
	defs   *definitionPipelinesDef
}

func restartPhase1(w *World) *restartCtx {
	dir, err := os.MkdirTemp("", "verif-c10-")
	if err != nil {
		panic(err)
	}
	rc := &restartCtx{dir: dir, defs: w.Opts.Defs[w.DefIdx]}
	w.S.External(func() {
		ds, err := store.NewJSONDataStore(dir)
		if err != nil {
			panic(err)
		}
		w.Store.inner = ds
		w.R.SaveToStore()
		w.Store.inner = nil
		rc.a = reportOf(w.R)
		rc.before = w.dump()
	})
	return rc
}

// restartPhase2 (after the controlled world has been closed; everything runs free): start a
// second runner from the directory and compare the reports as the statement says.
func restartPhase2(rc *restartCtx) []Violation {
	var vs []Violation
	add := func(norm, msg string) {
		for _, v := range vs {
			if v.Norm == norm {
				return
			}
		}
		vs = append(vs, Violation{Property: "C10", Rule: "restart", Norm: norm, Msg: msg})
	}
	defer os.RemoveAll(rc.dir)
	vsched.FreeTimeDivisor = 1000
	defer func() {
		if !vsched.WaitFree(10 * time.Second) {
			panic(InfraError{"goroutines of the restarted runner did not stop"})
		}
		vsched.FreeTimeDivisor = 1
	}()
	a, before := rc.a, rc.before
	ctx, cancel := context.WithCancel(context.Background())
	defer cancel()
	ds2, _ := store.NewJSONDataStore(rc.dir)
	r2, err := prunner.NewPipelineRunner(ctx, rc.defs, func(j *prunner.PipelineJob) taskctl.Runner { return &nullRunner{} }, ds2, nopOutputStore{})
	if err != nil {
		add("restart-fails", "a runner cannot be started from the persisted snapshot: "+err.Error())
		return vs
	}
	b := reportOf(r2)
	if len(a.Dups) > 0 || len(b.Dups) > 0 {
		add("duplicate-jobs", fmt.Sprintf("job list inconsistencies before %v / after %v the restart", a.Dups, b.Dups))
	}
	ia, ib := sortedIDs(a.Jobs), sortedIDs(b.Jobs)
	if strings.Join(ia, ",") != strings.Join(ib, ",") {
		add("job-set-differs", fmt.Sprintf("jobs before the restart %v, after %v", shortIDs(ia), shortIDs(ib)))
	}
	for id, jb := range b.Jobs {
		comp, _ := jb["completed"].(bool)
		canc, _ := jb["canceled"].(bool)
		if !comp && !canc {
			add("non-terminal-after-restart", fmt.Sprintf("job %s is neither completed nor canceled after the restart: %v", shortID(id), jb))
		}
		ja := a.Jobs[id]
		if ja == nil {
			continue
		}
		idx := jobIndexFromString(id)
		dj := before.Job(idx)
		if dj != nil && !dj.Terminal() {
			if !canc {
				add("unfinished-job-not-canceled-after-restart", fmt.Sprintf("job %s was %s before the restart and is not reported canceled afterwards", shortID(id), jobStr(dj)))
			}
			continue
		}
		// finished jobs: identical report
		if !reflect.DeepEqual(ja, jb) {
			add("finished-job-report-differs:"+diffKeys(ja, jb), fmt.Sprintf("job %s is reported differently after the restart (differences in: %s):\nbefore: %v\nafter:  %v", shortID(id), diffKeys(ja, jb), ja, jb))
		}
	}
	for p := range rc.defs.Pipelines {
		f, ok := b.Pipelines[p]
		if !ok || !f[0] || f[1] {
			add("ghost-capacity-after-restart", fmt.Sprintf("after the restart pipeline %s is listed schedulable=%v running=%v (must be schedulable and not running)", p, f[0], f[1]))
		}
		if _, err := r2.ScheduleAsync(p, prunner.ScheduleOpts{}); err != nil {
			add("not-schedulable-after-restart", fmt.Sprintf("after the restart a schedule request for pipeline %s fails: %v", p, err))
		}
	}
	// let the probe jobs finish, then stop the persist loop (no Shutdown: its WaitGroup use is not
	// safe against a concurrent save of the persist loop, which is outside this property)
	for i := 0; i < 2000; i++ {
		busy := false
		r2.IterateJobs(func(j *prunner.PipelineJob) {
			if !j.Completed && !j.Canceled {
				busy = true
			}
		})
		if !busy {
			break
		}
		time.Sleep(time.Millisecond)
	}
	cancel()
	return vs
}

func jobIndexFromString(id string) int {
	var n int
	fmt.Sscanf(id[len(id)-8:], "%x", &n)
	return n
}

func shortID(id string) string {
	if len(id) > 4 {
		return "#" + strings.TrimLeft(id[len(id)-4:], "0")
	}
	return id
}
func shortIDs(ids []string) []string {
	var r []string
	for _, i := range ids {
		r = append(r, shortID(i))
	}
	return r
}

func sortedIDs(m map[string]map[string]interface{}) []string {
	var r []string
	for k := range m {
		r = append(r, k)
	}
	sort.Strings(r)
	return r
}

func diffKeys(a, b map[string]interface{}) string {
	ks := map[string]bool{}
	for k, v := range a {
		if !reflect.DeepEqual(v, b[k]) {
			ks[k] = true
		}
	}
	for k, v := range b {
		if !reflect.DeepEqual(v, a[k]) {
			ks[k] = true
		}
	}
	var r []string
	for k := range ks {
		r = append(r, k)
	}
	sort.Strings(r)
	return strings.Join(r, ",")
}

// ---------------------------------------------------------------------------------------------
// codec sweep: every JSON value of nesting depth <= 2 over the atom alphabet as a job variable,
// submitted through the real schedule handler, completed, saved, restarted.

var jsonAtoms = []string{`null`, `true`, `false`, `0`, `1`, `-1`, `9007199254740992`, `1e-9`, `0.1234567891`, `1.5`, `-2.5e-7`, `1e21`, `123456789.125`, `9007199254740993`, `12345678901234567890`, `0.1234567890123456789`, `""`, `"a"`, `"é\"\n<>& \\  "`}

func jsonValues() []string {
	vals := append([]string(nil), jsonAtoms...)
	// arrays of <= 2 atoms
	vals = append(vals, `[]`)
	for _, a := range jsonAtoms {
		vals = append(vals, `[`+a+`]`)
	}
	for _, a := range jsonAtoms {
		for _, b := range jsonAtoms {
			vals = append(vals, `[`+a+`,`+b+`]`)
		}
	}
	// objects of <= 2 members
	vals = append(vals, `{}`)
	keys := []string{`"k"`, `"é \" k"`, `""`}
	for _, k := range keys {
		for _, a := range jsonAtoms {
			vals = append(vals, `{`+k+`:`+a+`}`)
		}
	}
	for _, a := range jsonAtoms {
		for _, b := range jsonAtoms {
			vals = append(vals, `{"x":`+a+`,"y":`+b+`}`)
		}
	}
	// depth 2
	for _, a := range jsonAtoms {
		vals = append(vals, `[[`+a+`],{"k":`+a+`}]`, `{"l":[`+a+`,`+a+`],"m":{"n":`+a+`}}`)
	}
	return vals
}

type codecRunner struct {
	cb   func(t *task.Task)
	fail string
}

func (n *codecRunner) SetOnTaskChange(f func(t *task.Task)) { n.cb = f }
func (n *codecRunner) Run(t *task.Task) error {
	t.Start = time.Now()
	if n.cb != nil {
		n.cb(t)
	}
	if n.fail != "" {
		t.Errored = true
		t.ExitCode = 3
		t.Error = fmt.Errorf("%s", n.fail)
		if n.cb != nil {
			n.cb(t)
		}
		return t.Error
	}
	t.End = time.Now()
	if n.cb != nil {
		n.cb(t)
	}
	return nil
}
func (n *codecRunner) Cancel() {}
func (n *codecRunner) Finish() {}

func runCodecUnit(u Unit) UnitResult {
	res := UnitResult{Name: u.Name, Exhaustive: true, Unbounded: true}
	vals := jsonValues()
	seen := map[string]bool{}
	add := func(norm, msg string) {
		if seen[norm] {
			return
		}
		seen[norm] = true
		res.Viol = append(res.Viol, FoundViolation{Violation: Violation{Property: "C10", Rule: "codec", Norm: norm, Msg: msg}, Scenario: u.Name})
	}
	dir, err := os.MkdirTemp("", "verif-c10c-")
	if err != nil {
		panic(err)
	}
	defer os.RemoveAll(dir)
	ctx, cancel := context.WithCancel(context.Background())
	defer cancel()
	ds, _ := store.NewJSONDataStore(dir)
	defs := mkDefs(map[string]PipeCfg{"p": {Conc: 1000, QL: -1, Graph: graphOne}})
	failText := ""
	r, err := prunner.NewPipelineRunner(ctx, defs, func(j *prunner.PipelineJob) taskctl.Runner { return &codecRunner{fail: failText} }, ds, nopOutputStore{})
	if err != nil {
		panic(err)
	}
	noLog := func(next http.Handler) http.Handler { return next }
	h := server.NewServer(r, memOutputStore{}, noLog, jwtauth.New("HS256", []byte(jwtSecret), nil), false)
	const per = 40
	njobs := 0
	jobVals := map[string][]string{}
	for i := 0; i < len(vals); i += per {
		var sb strings.Builder
		sb.WriteString(`{"pipeline":"p","variables":{`)
		end := i + per
		if end > len(vals) {
			end = len(vals)
		}
		for k := i; k < end; k++ {
			if k > i {
				sb.WriteString(",")
			}
			fmt.Fprintf(&sb, `"v%d":%s`, k, vals[k])
		}
		sb.WriteString(`}}`)
		code, b := apiGet(h, "POST", "/pipelines/schedule", sb.String())
		if code != 202 {
			add("schedule-rejected", fmt.Sprintf("schedule request with JSON variables answered %d: %s", code, head(b, 200)))
			continue
		}
		m, _ := decodeJSON(b).(map[string]interface{})
		id, _ := m["jobId"].(string)
		jobVals[id] = vals[i:end]
		njobs++
	}
	// error texts
	for _, txt := range []string{"exit status 3", "", "é\"\n<>& ", "a"} {
		failText = txt
		if txt == "" {
			failText = "\x00empty"
		}
		apiGet(h, "POST", "/pipelines/schedule", `{"pipeline":"p"}`)
		njobs++
	}
	failText = ""
	// wait for all jobs to finish
	deadline := time.Now().Add(30 * time.Second)
	for time.Now().Before(deadline) {
		running := false
		r.IterateJobs(func(j *prunner.PipelineJob) {
			if !j.Completed && !j.Canceled {
				running = true
			}
		})
		if !running {
			break
		}
		time.Sleep(5 * time.Millisecond)
	}
	stillRunning := false
	r.IterateJobs(func(j *prunner.PipelineJob) {
		if !j.Completed && !j.Canceled {
			stillRunning = true
		}
	})
	if stillRunning {
		res.Exhaustive = false
		res.Caps = append(res.Caps, "the codec jobs did not finish within 30s: inconclusive")
		cancel()
		return res
	}
	// The runner's own persist loop may have a save in flight that started before the last job finished; its rename
	// can land after the one of an explicit save (two saves are not ordered with respect to each other while the
	// runner is alive). Save until the file on disk shows every job finished on two consecutive looks.
	settled := 0
	for attempt := 0; attempt < 200 && settled < 2; attempt++ {
		r.SaveToStore()
		time.Sleep(20 * time.Millisecond)
		pd, lerr := ds.Load()
		ok := lerr == nil && pd != nil && len(pd.Jobs) == njobs
		if ok {
			for _, pj := range pd.Jobs {
				if !pj.Completed && !pj.Canceled {
					ok = false
				}
			}
		}
		if ok {
			settled++
		} else {
			settled = 0
		}
	}
	if settled < 2 {
		res.Exhaustive = false
		res.Caps = append(res.Caps, "the store did not settle on the final state of the codec jobs: inconclusive")
		cancel()
		return res
	}
	a := reportOf(r)
	ds2, _ := store.NewJSONDataStore(dir)
	r2, err := prunner.NewPipelineRunner(ctx, defs, func(j *prunner.PipelineJob) taskctl.Runner { return &nullRunner{} }, ds2, nopOutputStore{})
	if err != nil {
		add("restart-fails", "restart from a store with JSON variables fails: "+err.Error())
		res.Execs = njobs
		return res
	}
	b := reportOf(r2)
	nvals := 0
	for id, ja := range a.Jobs {
		jb := b.Jobs[id]
		if jb == nil {
			add("job-lost", "job "+shortID(id)+" is lost by the restart")
			continue
		}
		// the variables as submitted (first: what the API reports before the restart must equal the submission)
		if sub, ok := jobVals[id]; ok {
			va, _ := ja["variables"].(map[string]interface{})
			vb, _ := jb["variables"].(map[string]interface{})
			base := 0
			fmt.Sscanf(firstKey(va), "v%d", &base)
			for k, want := range va {
				nvals++
				got, ok := vb[k]
				if !ok && want != nil {
					add("variable-lost", fmt.Sprintf("variable %s (%v) is lost by the restart", k, want))
					continue
				}
				if !jsonEqual(want, got) {
					add("variable-changed:"+jsonKind(want), fmt.Sprintf("variable value %s is reported as %s after the restart", showJSON(want), showJSON(got)))
				}
			}
			_ = sub
		}
		ka, kb := map[string]interface{}{}, map[string]interface{}{}
		for k, v := range ja {
			if k != "variables" {
				ka[k] = v
			}
		}
		for k, v := range jb {
			if k != "variables" {
				kb[k] = v
			}
		}
		if !reflect.DeepEqual(ka, kb) {
			add("finished-job-report-differs:"+diffKeys(ka, kb), fmt.Sprintf("job %s is reported differently after the restart (differences in: %s):\nbefore: %v\nafter:  %v", shortID(id), diffKeys(ka, kb), ka, kb))
		}
	}
	cancel()
	res.Execs = njobs
	res.States = nvals
	res.Transitions = nvals
	res.Outcomes = nvals
	res.Samples = []string{fmt.Sprintf("%d JSON values of depth <= 2 over %d atoms, e.g. %s, %s", len(vals), len(jsonAtoms), vals[7], vals[len(vals)-1])}
	return res
}

func firstKey(m map[string]interface{}) string {
	for k := range m {
		return k
	}
	return ""
}

func jsonKind(v interface{}) string {
	switch x := v.(type) {
	case stdjson.Number:
		if strings.ContainsAny(string(x), ".eE") {
			return "non-integer-number"
		}
		return "integer"
	case string:
		return "string"
	case []interface{}:
		for _, e := range x {
			if k := jsonKind(e); k == "non-integer-number" {
				return "array-with-non-integer-number"
			}
		}
		return "array"
	case map[string]interface{}:
		for _, e := range x {
			if k := jsonKind(e); k == "non-integer-number" {
				return "object-with-non-integer-number"
			}
		}
		return "object"
	case nil:
		return "null"
	case bool:
		return "bool"
	}
	return "?"
}

func showJSON(v interface{}) string {
	b, _ := stdjson.Marshal(v)
	return string(b)
}

// jsonEqual: JSON-value equality; numbers compare by numeric value
func jsonEqual(a, b interface{}) bool {
	switch x := a.(type) {
	case stdjson.Number:
		y, ok := b.(stdjson.Number)
		if !ok {
			return false
		}
		if string(x) == string(y) {
			return true
		}
		// exactly, as rationals: two literals that merely round to the same float64 are different values
		rx, ok1 := new(big.Rat).SetString(string(x))
		ry, ok2 := new(big.Rat).SetString(string(y))
		return ok1 && ok2 && rx.Cmp(ry) == 0
	case []interface{}:
		y, ok := b.([]interface{})
		if !ok || len(x) != len(y) {
			return false
		}
		for i := range x {
			if !jsonEqual(x[i], y[i]) {
				return false
			}
		}
		return true
	case map[string]interface{}:
		y, ok := b.(map[string]interface{})
		if !ok || len(x) != len(y) {
			return false
		}
		for k, v := range x {
			w, ok := y[k]
			if !ok || !jsonEqual(v, w) {
				return false
			}
		}
		return true
	default:
		return reflect.DeepEqual(a, b)
	}
}

// ---------------------------------------------------------------------------------------------
// snapshots persisted at ANY point: X1 scenarios in which saves race with a job's progress; every
// distinct snapshot that any explored execution wrote is restarted from afterwards.

func persistedKey(d *store.PersistedData) string {
	jobs := append([]store.PersistedJob(nil), d.Jobs...)
	sort.Slice(jobs, func(i, j int) bool { return jobIndex(jobs[i].ID) < jobIndex(jobs[j].ID) })
	var sb strings.Builder
	for _, j := range jobs {
		sb.WriteString(persistedString(j))
		sb.WriteString("|")
	}
	return sb.String()
}

// restartFromSnapshot starts a runner from the snapshot (through the real JSON store) and checks
// the part of the statement that does not need a report from before the save.
func restartFromSnapshot(snap *store.PersistedData, defs *definitionPipelinesDef) []Violation {
	var vs []Violation
	add := func(norm, msg string) {
		vs = append(vs, Violation{Property: "C10", Rule: "restart-any-point", Norm: norm, Msg: msg + " (snapshot: " + persistedKey(snap) + ")"})
	}
	dir, err := os.MkdirTemp("", "verif-c10s-")
	if err != nil {
		panic(err)
	}
	defer os.RemoveAll(dir)
	vsched.FreeTimeDivisor = 1000
	defer func() {
		if !vsched.WaitFree(10 * time.Second) {
			panic(InfraError{"goroutines of the restarted runner did not stop"})
		}
		vsched.FreeTimeDivisor = 1
	}()
	ds, _ := store.NewJSONDataStore(dir)
	if err := ds.Save(snap); err != nil {
		panic(err)
	}
	ctx, cancel := context.WithCancel(context.Background())
	defer cancel()
	ds2, _ := store.NewJSONDataStore(dir)
	r2, err := prunner.NewPipelineRunner(ctx, defs, func(j *prunner.PipelineJob) taskctl.Runner { return &nullRunner{} }, ds2, nopOutputStore{})
	if err != nil {
		add("restart-fails", "a runner cannot be started from the snapshot: "+err.Error())
		return vs
	}
	b := reportOf(r2)
	want := map[string]bool{}
	for _, j := range snap.Jobs {
		want[j.ID.String()] = true
	}
	if len(b.Dups) > 0 || len(b.Jobs) != len(want) {
		add("job-set-differs", fmt.Sprintf("the snapshot has %d jobs, after the restart %d are reported (duplicates: %v)", len(want), len(b.Jobs), b.Dups))
	}
	for id, jb := range b.Jobs {
		comp, _ := jb["completed"].(bool)
		canc, _ := jb["canceled"].(bool)
		if !comp && !canc {
			add("non-terminal-after-restart", fmt.Sprintf("job %s is neither completed nor canceled after the restart: %v", shortID(id), jb))
		}
		if !want[id] {
			add("job-set-differs", "job "+shortID(id)+" is reported after the restart but is not in the snapshot")
		}
	}
	for p := range defs.Pipelines {
		f, ok := b.Pipelines[p]
		if !ok || !f[0] || f[1] {
			add("ghost-capacity-after-restart", fmt.Sprintf("after the restart pipeline %s is listed schedulable=%v running=%v", p, f[0], f[1]))
		}
		nj, err := r2.ScheduleAsync(p, prunner.ScheduleOpts{})
		if err != nil {
			add("not-schedulable-after-restart", fmt.Sprintf("after the restart a schedule request for pipeline %s fails: %v", p, err))
		} else {
			started := false
			for i := 0; i < 2000 && !started; i++ {
				_ = r2.ReadJob(nj.ID, func(j *prunner.PipelineJob) { started = j.Start != nil })
				if !started {
					time.Sleep(time.Millisecond)
				}
			}
			if !started {
				add("ghost-capacity-after-restart", fmt.Sprintf("after the restart a new job of pipeline %s is accepted but never starts (a ghost holds the slot)", p))
			}
		}
	}
	for i := 0; i < 2000; i++ {
		busy := false
		r2.IterateJobs(func(j *prunner.PipelineJob) {
			if !j.Completed && !j.Canceled {
				busy = true
			}
		})
		if !busy {
			break
		}
		time.Sleep(time.Millisecond)
	}
	cancel()
	return vs
}

func c10Scenarios(tier string) []*Scenario {
	var scs []*Scenario
	for _, v := range []struct {
		n   string
		cfg PipeCfg
		pre []XEvent
	}{
		{"chain", PipeCfg{Conc: 1, QL: -1, Graph: graphChain}, nil},
		{"one+waiting", PipeCfg{Conc: 1, QL: -1, Graph: graphOne}, []XEvent{{Kind: "S", P: "p"}}},
		{"par-failfast", PipeCfg{Conc: 1, QL: -1, Graph: graphPar}, nil},
	} {
		v := v
		type snapInfo struct {
			snap    *store.PersistedData
			choices []int
		}
		snaps := map[string]snapInfo{}
		defs := defsOf(v.cfg)
		scs = append(scs, &Scenario{
			Name:   "save-at-any-point/" + v.n,
			Desc:   "one client schedules a job, another saves twice at arbitrary points of its life; every distinct snapshot written in any explored execution is restarted from",
			Opts:   func() WorldOpts { return WorldOpts{Defs: defs, WithStore: true} },
			Prefix: v.pre,
			Setup: func(w *World) {
				w.Accepted = len(v.pre)
				w.SpawnDriver(Op{Kind: "S", Pipeline: "p"})
				if v.n == "par-failfast" {
					w.SpawnDriver(Op{Kind: "Save"})
				} else {
					w.SpawnDriver(Op{Kind: "Save"}, Op{Kind: "Save"})
				}
			},
			Check: func(w *World, x *Exec) []Violation {
				for _, sn := range w.Store.saves {
					k := persistedKey(sn)
					if _, ok := snaps[k]; !ok {
						snaps[k] = snapInfo{sn, append([]int(nil), x.Choices...)}
					}
				}
				return nil
			},
			PostRun: func() []FoundViolation {
				var res []FoundViolation
				keys := make([]string, 0, len(snaps))
				for k := range snaps {
					keys = append(keys, k)
				}
				sort.Strings(keys)
				seen := map[string]bool{}
				for _, k := range keys {
					for _, viol := range restartFromSnapshot(snaps[k].snap, defs[0]) {
						if seen[viol.Norm] {
							continue
						}
						seen[viol.Norm] = true
						res = append(res, FoundViolation{Violation: viol, Scenario: "save-at-any-point/" + v.n, Choices: snaps[k].choices})
					}
				}
				return res
			},
			FailOK: false, Bound: intp(1),
		})
	}
	return scs
}

// monC15API: at a quiescent state, what the real server handlers return agrees with the runner state:
// every accepted job is in /pipelines/jobs and readable by id, the list is sorted newest first, the
// pipeline flags are those of ListPipelines, and the detail equals the list entry.
func monC15API(w *World, d *Dump) []Violation {
	var vs []Violation
	var rep apiReport
	w.S.External(func() { rep = reportOf(w.R) })
	if len(rep.Dups) > 0 {
		vs = append(vs, Violation{Property: "C15", Rule: "api-list", Norm: "job-list-inconsistent", Msg: fmt.Sprintf("/pipelines/jobs has duplicates or entries that differ from /job/detail: %v", rep.Dups)})
	}
	want := map[string]*DJob{}
	for i := range d.Jobs {
		want[jobUUID(d.Jobs[i].Idx).String()] = &d.Jobs[i]
	}
	for id, j := range want {
		jm, ok := rep.Jobs[id]
		if !ok {
			vs = append(vs, Violation{Property: "C15", Rule: "api-list", Norm: "accepted-job-not-listed", Msg: fmt.Sprintf("job %d (%s) is known to the runner but missing from /pipelines/jobs", j.Idx, jobStr(j))})
			continue
		}
		comp, _ := jm["completed"].(bool)
		canc, _ := jm["canceled"].(bool)
		_, hasStart := jm["start"]
		if comp != j.Completed || canc != j.Canceled || (hasStart && jm["start"] != nil) != j.Started() {
			vs = append(vs, Violation{Property: "C15", Rule: "api-detail", Norm: "job-detail-differs-from-runner-state", Msg: fmt.Sprintf("job %d is reported completed=%v canceled=%v started=%v, the runner state is %s", j.Idx, comp, canc, hasStart, jobStr(j))})
		}
	}
	for id := range rep.Jobs {
		if want[id] == nil {
			vs = append(vs, Violation{Property: "C15", Rule: "api-list", Norm: "listed-job-unknown", Msg: "job " + shortID(id) + " is listed but not known to the runner"})
		}
	}
	// newest first
	for i := 1; i < len(rep.Order); i++ {
		a, b := want[rep.Order[i-1]], want[rep.Order[i]]
		if a != nil && b != nil && a.Created < b.Created {
			vs = append(vs, Violation{Property: "C15", Rule: "api-order", Norm: "job-list-not-newest-first", Msg: fmt.Sprintf("/pipelines/jobs lists job %d (created %v) before job %d (created %v)", a.Idx, a.Created, b.Idx, b.Created)})
			break
		}
	}
	return dedupV(vs)
}
