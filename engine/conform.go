package main

// conform.go: conformance of the mock task runner (used by every controlled-scheduler unit) to
// the real taskctl.TaskRunner. The same single-pipeline scenarios are executed once with the
// mock under the controlled scheduler and once free-running with real processes; the final
// reports must agree field by field. A disagreement means the model-checking units decide about
// a runner that does not behave like the real one: it is reported as an infrastructure failure
// (exit 3), never as a verdict about the property.

import (
	"fmt"
	"os"
	"sort"
	"strings"
	"time"

	"github.com/Flowpack/prunner"
)

type confStep struct {
	kind string // S, Sbad, C, wait-running, Dok, Dfail (mock only), sleep
	job  int
	task string
}

type confScenario struct {
	name    string
	cfg     PipeCfg // Script describes the real commands
	steps   []confStep
	looseLE bool // the job-level last error depends on which stage goroutine finishes last
}

type confReport struct {
	jobs []string
}

func normTask(name, status string, errored, canceled, hasStart, hasEnd bool, exit int16) string {
	ex := "0"
	if exit != 0 && exit != -1 {
		ex = "nz"
	}
	return fmt.Sprintf("%s=%s,err=%v,canc=%v,start=%v,end=%v,exit=%s", name, status, errored, canceled, hasStart, hasEnd, ex)
}

func errClassText(s string) string {
	switch {
	case s == "":
		return ""
	case strings.Contains(s, "context canceled"):
		return "ctx-canceled"
	case strings.Contains(s, "exit status"):
		return "exit-status"
	case strings.Contains(s, "reserved"):
		return "reserved-variable"
	}
	return "other:" + s
}

func conformanceScenarios() []confScenario {
	sh := func(m map[string][]string) map[string][]string { return m }
	return []confScenario{
		{name: "success", cfg: PipeCfg{Conc: 1, QL: -1, Graph: graphOne, Script: sh(map[string][]string{"a": {"true"}})},
			steps: []confStep{{kind: "S"}, {kind: "Dok", job: 1, task: "a"}}},
		{name: "failure", cfg: PipeCfg{Conc: 1, QL: -1, Graph: graphOne, Script: sh(map[string][]string{"a": {"exit 3"}})},
			steps: []confStep{{kind: "S"}, {kind: "Dfail", job: 1, task: "a"}}},
		{name: "allowed-failure", cfg: PipeCfg{Conc: 1, QL: -1, Graph: graphOne, Allow: map[string]bool{"a": true}, Script: sh(map[string][]string{"a": {"exit 3"}})},
			steps: []confStep{{kind: "S"}, {kind: "Dfail", job: 1, task: "a"}}},
		{name: "chain-success", cfg: PipeCfg{Conc: 1, QL: -1, Graph: graphChain, Script: sh(map[string][]string{"a": {"true"}, "b": {"true"}})},
			steps: []confStep{{kind: "S"}, {kind: "Dok", job: 1, task: "a"}, {kind: "Dok", job: 1, task: "b"}}},
		{name: "chain-first-fails", cfg: PipeCfg{Conc: 1, QL: -1, Graph: graphChain, Script: sh(map[string][]string{"a": {"exit 3"}, "b": {"true"}})},
			steps: []confStep{{kind: "S"}, {kind: "Dfail", job: 1, task: "a"}}},
		{name: "chain-first-fails-allowed", cfg: PipeCfg{Conc: 1, QL: -1, Graph: graphChain, Allow: map[string]bool{"a": true}, Script: sh(map[string][]string{"a": {"exit 3"}, "b": {"true"}})},
			steps: []confStep{{kind: "S"}, {kind: "Dfail", job: 1, task: "a"}, {kind: "Dok", job: 1, task: "b"}}},
		{name: "parallel-fail-fast", cfg: PipeCfg{Conc: 1, QL: -1, Graph: graphPar, Script: sh(map[string][]string{"a": {"sleep 0.3", "exit 3"}, "b": {"sleep 30"}})},
			steps: []confStep{{kind: "S"}, {kind: "wait-running", job: 1}, {kind: "Dfail", job: 1, task: "a"}}, looseLE: true},
		{name: "parallel-continue", cfg: PipeCfg{Conc: 1, QL: -1, Graph: graphPar, Continue: true, Script: sh(map[string][]string{"a": {"exit 3"}, "b": {"sleep 0.3"}})},
			steps: []confStep{{kind: "S"}, {kind: "Dfail", job: 1, task: "a"}, {kind: "Dok", job: 1, task: "b"}}},
		{name: "cancel-while-running", cfg: PipeCfg{Conc: 1, QL: -1, Graph: graphOne, Script: sh(map[string][]string{"a": {"sleep 30"}})},
			steps: []confStep{{kind: "S"}, {kind: "wait-running", job: 1}, {kind: "C", job: 1}}},
		{name: "chain-cancel-in-first-task", cfg: PipeCfg{Conc: 1, QL: -1, Graph: graphChain, Script: sh(map[string][]string{"a": {"sleep 30"}, "b": {"true"}})},
			steps: []confStep{{kind: "S"}, {kind: "wait-running", job: 1}, {kind: "C", job: 1}}},
		{name: "cancel-waiting-job", cfg: PipeCfg{Conc: 1, QL: -1, Graph: graphOne, Script: sh(map[string][]string{"a": {"sleep 30"}})},
			steps: []confStep{{kind: "S"}, {kind: "S"}, {kind: "wait-running", job: 1}, {kind: "C", job: 2}, {kind: "C", job: 1}}},
		{name: "reserved-variable", cfg: PipeCfg{Conc: 1, QL: -1, Graph: graphOne, Script: sh(map[string][]string{"a": {"true"}})},
			steps: []confStep{{kind: "Sbad"}}},
	}
}

func (sc confScenario) runMock() []string {
	c := &X2Config{Name: "conformance/" + sc.name, Cfgs: []PipeCfg{sc.cfg}}
	w := c.replayHist(nil)
	defer w.Close()
	for _, st := range sc.steps {
		switch st.kind {
		case "S", "Sbad":
			c.step(w, XEvent{Kind: st.kind, P: "p"})
		case "C":
			c.step(w, XEvent{Kind: "C", Job: st.job})
		case "Dok", "Dfail":
			c.step(w, XEvent{Kind: st.kind, Job: st.job, Task: st.task})
		}
	}
	w.Drain(50)
	d := w.dump()
	var res []string
	for _, j := range d.Jobs {
		var ts []string
		for _, t := range j.Tasks {
			ts = append(ts, normTask(t.Name, t.Status, t.Errored, t.Canceled, t.HasStart, t.HasEnd, t.ExitCode))
		}
		le := errClassText(j.LastError)
		if sc.looseLE && le != "" {
			le = "some-error"
		}
		canc := fmt.Sprint(j.Canceled)
		if sc.looseLE {
			canc = "either"
		}
		res = append(res, fmt.Sprintf("job%d completed=%v canceled=%s started=%v lastError=%s [%s]", j.Idx, j.Completed, canc, j.Started(), le, strings.Join(ts, " ")))
	}
	return res
}

func (sc confScenario) runReal() []string {
	pw := newProcWorld(mkDefs(map[string]PipeCfg{"p": sc.cfg}), 200*time.Millisecond)
	defer pw.close()
	var jobs []*prunner.PipelineJob
	for _, st := range sc.steps {
		switch st.kind {
		case "S", "Sbad":
			opts := prunner.ScheduleOpts{}
			if st.kind == "Sbad" {
				opts.Variables = map[string]interface{}{"__jobID": "x"}
			}
			j, err := pw.r.ScheduleAsync("p", opts)
			if err != nil {
				panic(err)
			}
			jobs = append(jobs, j)
		case "wait-running":
			id := jobs[st.job-1].ID
			for i := 0; i < 3000; i++ {
				running := false
				_ = pw.r.ReadJob(id, func(j *prunner.PipelineJob) {
					for _, t := range prunner.VerifJobOf(j).Tasks {
						if t.HasStart {
							running = true
						}
					}
				})
				if running {
					break
				}
				time.Sleep(2 * time.Millisecond)
			}
			time.Sleep(30 * time.Millisecond)
		case "C":
			_ = pw.r.CancelJob(jobs[st.job-1].ID)
		}
	}
	var res []string
	for i, j := range jobs {
		v, ok := pw.wait(j.ID, 30*time.Second)
		if !ok {
			res = append(res, fmt.Sprintf("job%d did not finish", i+1))
			continue
		}
		var ts []string
		tasks := append([]prunner.VerifTask(nil), v.Tasks...)
		sort.SliceStable(tasks, func(a, b int) bool { return false })
		for _, t := range tasks {
			ts = append(ts, normTask(t.Name, t.Status, t.Errored, t.Canceled, t.HasStart, t.HasEnd, t.ExitCode))
		}
		le := errClassText(v.LastError)
		if sc.looseLE && le != "" {
			le = "some-error"
		}
		canc := fmt.Sprint(v.Canceled)
		if sc.looseLE {
			canc = "either"
		}
		res = append(res, fmt.Sprintf("job%d completed=%v canceled=%s started=%v lastError=%s [%s]", i+1, v.Completed, canc, v.Start != nil, le, strings.Join(ts, " ")))
	}
	return res
}

func runConformanceUnit(u Unit) UnitResult {
	res := UnitResult{Name: u.Name, Exhaustive: true, Unbounded: true}
	FreePause = 5 * time.Millisecond
	if os.Getenv("VERIF_CONFORM_PRINT") != "" {
		for _, sc := range conformanceScenarios() {
			fmt.Fprintf(os.Stderr, "%q: %q,\n", sc.name, strings.Join(sc.runMock(), "\n"))
		}
	}
	for _, sc := range conformanceScenarios() {
		mock := strings.Join(sc.runMock(), "\n")
		real := strings.Join(sc.runReal(), "\n")
		res.Execs += 2
		res.States++
		res.Transitions += len(sc.steps)
		res.Outcomes++
		want, ok := conformanceGolden[sc.name]
		if !ok {
			panic(InfraError{"no expected report recorded for conformance scenario " + sc.name})
		}
		switch {
		case mock == real:
			// the two runners agree: that is conformance. (If both differ from the recorded report, production code they
			// share - prunner.go, the scheduler - behaves differently; whether that breaks a property is for the
			// model-checking units to say, under their own oracles.)
		case mock == want:
			// the mock follows the recorded protocol, the real taskctl.TaskRunner (production code) does not
			res.Viol = append(res.Viol, FoundViolation{Scenario: "realrunner/" + sc.name, Violation: Violation{Property: "*", Rule: "real-runner-protocol", Norm: "real-runner-protocol:" + sc.name,
				Msg: fmt.Sprintf("scenario %q run with the real taskctl.TaskRunner and real processes ends in a different report than the notification protocol the model-checking units assume (and the mock runner follows):\nexpected: %s\nreal:     %s", sc.name, want, real)}})
		default:
			panic(InfraError{fmt.Sprintf("MOCK-CONFORMANCE scenario %q: the mock task runner and the real taskctl.TaskRunner end in different reports and the mock is not the one that matches the recorded report - the model-checking units would decide about a runner that does not behave like the real one.\nrecorded: %s\nmock:     %s\nreal:     %s", sc.name, want, mock, real)})
		}
		if len(res.Samples) < 2 {
			res.Samples = append(res.Samples, sc.name+": "+strings.ReplaceAll(mock, "\n", " | "))
		}
	}
	return res
}

// conformanceGolden: the report each scenario ends in, recorded from the repaired tree (mock and real runner agreed)
var conformanceGolden = map[string]string{
	"success":                    "job1 completed=true canceled=false started=true lastError= [a=done,err=false,canc=false,start=true,end=true,exit=0]",
	"failure":                    "job1 completed=true canceled=false started=true lastError=exit-status [a=error,err=true,canc=false,start=true,end=false,exit=nz]",
	"allowed-failure":            "job1 completed=true canceled=false started=true lastError= [a=done,err=false,canc=false,start=true,end=true,exit=nz]",
	"chain-success":              "job1 completed=true canceled=false started=true lastError= [a=done,err=false,canc=false,start=true,end=true,exit=0 b=done,err=false,canc=false,start=true,end=true,exit=0]",
	"chain-first-fails":          "job1 completed=true canceled=false started=true lastError=exit-status [a=error,err=true,canc=false,start=true,end=false,exit=nz b=waiting,err=false,canc=false,start=false,end=false,exit=0]",
	"chain-first-fails-allowed":  "job1 completed=true canceled=false started=true lastError= [a=done,err=false,canc=false,start=true,end=true,exit=nz b=done,err=false,canc=false,start=true,end=true,exit=0]",
	"parallel-fail-fast":         "job1 completed=true canceled=either started=true lastError=some-error [a=error,err=true,canc=false,start=true,end=false,exit=nz b=canceled,err=false,canc=true,start=true,end=false,exit=0]",
	"parallel-continue":          "job1 completed=true canceled=false started=true lastError=exit-status [a=error,err=true,canc=false,start=true,end=false,exit=nz b=done,err=false,canc=false,start=true,end=true,exit=0]",
	"cancel-while-running":       "job1 completed=true canceled=true started=true lastError=ctx-canceled [a=canceled,err=false,canc=true,start=true,end=false,exit=0]",
	"chain-cancel-in-first-task": "job1 completed=true canceled=true started=true lastError=ctx-canceled [a=canceled,err=false,canc=true,start=true,end=false,exit=0 b=waiting,err=false,canc=false,start=false,end=false,exit=0]",
	"cancel-waiting-job":         "job1 completed=true canceled=true started=true lastError=ctx-canceled [a=canceled,err=false,canc=true,start=true,end=false,exit=0]\njob2 completed=false canceled=true started=false lastError= [a=waiting,err=false,canc=true,start=false,end=false,exit=0]",
	"reserved-variable":          "job1 completed=false canceled=true started=false lastError=reserved-variable [a=waiting,err=false,canc=false,start=false,end=false,exit=0]",
}
