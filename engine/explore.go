package main

// explore.go: the two explorers over the controlled runtime.
//
//   X1  stateless depth-first exploration of schedules with iterative deviation bounding and
//       happens-before fingerprint pruning
//   X2  explicit-state breadth-first search over event histories at quiescent states

import (
	"fmt"
	"os"
	"sort"
	"strings"
	"time"

	"github.com/Flowpack/prunner/zverif/vsched"
)

// Choice is one entry of the canonically ordered menu at a scheduling decision
type Choice struct {
	T   *vsched.Thread
	Env *EnvEvent
}

func (c Choice) Label() string {
	if c.T != nil {
		return c.T.Name + "@" + c.T.Pending()
	}
	return "env:" + c.Env.String()
}

// Scenario is a closed program for X1
type Scenario struct {
	// QuiescentCheck is evaluated at every point of an execution at which no thread is enabled
	QuiescentCheck func(w *World) []Violation
	Name           string
	Desc           string
	Opts           func() WorldOpts
	Prefix         []XEvent       // optional history that is replayed (canonical schedule) before the drivers start
	Setup          func(w *World) // spawns the driver threads
	Env            func(w *World) []EnvEvent
	Check          func(w *World, x *Exec) []Violation
	Horizon        int
	FailOK         bool                    // offer "fail" outcomes for tasks in addition to "done"
	CancelOutcomes bool                    // the environment decides how a running task reacts to the stop (die / exit non-zero / exit 0)
	NoTick         bool                    // never offer clock ticks (scenarios without timers)
	Forced         bool                    // offer the cancellation of the forced-shutdown context as an environment event
	Bound          *int                    // deviation bound override
	Static         func() []Violation      // checks that do not need an execution (run once per scenario)
	PostRun        func() []FoundViolation // evaluated once after the exploration (e.g. on artefacts collected from all executions)
}

type Violation struct {
	Property string `json:"property"`
	Rule     string `json:"rule"`
	Msg      string `json:"msg"`
	Norm     string `json:"norm"` // normal form used to match known findings
}

type point struct {
	n              int
	labelsHash     uint64
	threadsEnabled int
	runningEnabled bool
	onlyDelayed    bool     // every enabled thread was preempted earlier in this execution and is being held back
	envKinds       []string // kind per choice ("" for threads)
	labels         []string
}

func (p *point) cost(alt int) int {
	if alt == 0 {
		return 0
	}
	if p.runningEnabled {
		// leaving a thread that could continue - for another thread or for an environment event - is a preemption
		return 1
	}
	if p.envKinds[alt] == "" {
		return 0 // the thread that ran last is blocked or has finished: which thread goes next is free
	}
	// an environment event: free when nothing else could run - threads that were preempted earlier and are
	// being held back on purpose do not count - otherwise it overtakes a runnable thread and costs 1
	if p.threadsEnabled > 0 && !p.onlyDelayed {
		return 1
	}
	switch p.envKinds[alt] {
	case "tick", "adv":
		return 1
	}
	return 0
}

// Exec is one complete (or cut) execution
type Exec struct {
	Choices  []int
	Points   []point
	CostAt   []int // deviations used before point i
	Cut      bool
	Horizon  bool
	Deadlock string
	W        *World
}

func defaultEnv(sc *Scenario, w *World) []EnvEvent {
	var evs []EnvEvent
	for _, rs := range w.ParkedRuns() {
		if rs.cancelPending {
			evs = append(evs, EnvEvent{Kind: "die", Inst: rs.inst, Task: rs.task}, EnvEvent{Kind: "exitnz", Inst: rs.inst, Task: rs.task}, EnvEvent{Kind: "exit0", Inst: rs.inst, Task: rs.task})
			continue
		}
		evs = append(evs, EnvEvent{Kind: "done", Inst: rs.inst, Task: rs.task})
		if sc.FailOK {
			evs = append(evs, EnvEvent{Kind: "fail", Inst: rs.inst, Task: rs.task})
		}
	}
	if !sc.NoTick {
		if _, ok := w.S.NextDeadline(); ok {
			evs = append(evs, EnvEvent{Kind: "tick"})
		}
	}
	if sc.Forced && !w.forcedDone {
		evs = append(evs, EnvEvent{Kind: "ctx"})
	}
	return evs
}

func (w *World) choices(sc *Scenario, withEnv bool) ([]Choice, point) {
	var cs []Choice
	var p point
	w.S.FireDue()
	en := w.S.Enabled()
	p.threadsEnabled = len(en)
	if len(en) > 0 && en[0] == w.S.LastRan() {
		p.runningEnabled = true
	}
	for _, t := range en {
		cs = append(cs, Choice{T: t})
		p.envKinds = append(p.envKinds, "")
	}
	if withEnv {
		var evs []EnvEvent
		if sc != nil && sc.Env != nil {
			evs = sc.Env(w)
		} else if sc != nil {
			evs = defaultEnv(sc, w)
		}
		for i := range evs {
			cs = append(cs, Choice{Env: &evs[i]})
			p.envKinds = append(p.envKinds, evs[i].Kind)
		}
	}
	p.n = len(cs)
	var h uint64 = 7
	for _, c := range cs {
		l := c.Label()
		p.labels = append(p.labels, l)
		h = vsched.Mix(h, vsched.HashString(l))
	}
	p.labelsHash = h
	return cs, p
}

func (w *World) take(c Choice) {
	if c.T != nil {
		w.S.Step(c.T)
	} else {
		w.Apply(*c.Env)
	}
}

// InfraError is a failure of the checker itself (never a verdict)
type InfraError struct{ Msg string }

func (e InfraError) Error() string { return e.Msg }

// X1 explorer state
type X1 struct {
	Sc                                      *Scenario
	Bound                                   int
	cache                                   map[uint64]int8
	Execs                                   int
	Cuts                                    int
	Steps                                   int
	States                                  int // distinct HB keys
	MaxDepth                                int
	BoundHit                                bool // some alternative was skipped because of the deviation bound
	Outcomes                                map[string]int
	Viol                                    []FoundViolation
	Deadline                                Budget
	TimedOut                                bool
	MaxExecs                                int
	Samples                                 []string
	stopAtFirst                             bool
	AfterExec                               func(ex *Exec) []Violation
	AfterClose                              func()
	RaceReports, RaceInternal, RaceTeardown int
	// Bonus deepening: once the prescribed bound is complete, higher bounds are explored while the unit has CPU budget
	// left under Bonus (zero value: off). A bonus bound that is cut short is not a cap on the prescribed exploration.
	Bonus      Budget
	Prescribed int    // the bound the scenario asked for
	BonusNote  string // what the bonus rounds did
}

type FoundViolation struct {
	Violation
	Scenario string   `json:"scenario"`
	Choices  []int    `json:"choices"`
	Hist     []XEvent `json:"hist,omitempty"`
	Config   string   `json:"config,omitempty"`
	Labels   []string `json:"labels"`
	Log      []string `json:"log"`
}

func NewX1(sc *Scenario, bound int) *X1 {
	return &X1{Sc: sc, Bound: bound, cache: map[uint64]int8{}, Outcomes: map[string]int{}}
}

// startWorld builds the world of a scenario: options, prefix history, drivers
func startWorld(sc *Scenario) *World {
	opts := sc.Opts()
	opts.DumpOnUnlock = true
	w := NewWorld(opts)
	w.FailOK = sc.FailOK
	w.CancelOutcomes = sc.CancelOutcomes
	for _, ev := range sc.Prefix {
		w.ApplyX(ev)
		w.Quiesce()
	}
	if sc.Setup != nil {
		sc.Setup(w)
	}
	return w
}

// run executes the scenario following prefix and then the default choice; explore==true enables
// the cache cut for points at or beyond len(prefix).
func (x *X1) run(prefix []int, prefixPoints []point, useCache bool) *Exec {
	sc := x.Sc
	w := startWorld(sc)
	ex := &Exec{W: w}
	horizon := sc.Horizon
	if horizon == 0 {
		horizon = 4000
	}
	used := 0
	ctxDone := false
	delayed := map[*vsched.Thread]bool{}
	for i := 0; ; i++ {
		cs, p := w.choices(sc, true)
		if p.threadsEnabled > 0 {
			p.onlyDelayed = true
			for _, c := range cs {
				if c.T != nil && !delayed[c.T] {
					p.onlyDelayed = false
				}
			}
		}
		if p.threadsEnabled == 0 && sc.QuiescentCheck != nil && w.R != nil {
			// nothing can run: whatever comes next is the environment's move. A state a user can observe for as long as
			// the environment likes - the "as soon as a slot is free" clauses are judged here, not only at the end.
			w.quiescentViol = append(w.quiescentViol, sc.QuiescentCheck(w)...)
		}
		if len(cs) == 0 {
			if !ctxDone && len(w.S.Live()) > 0 {
				// end of the scenario: stop the daemons (persist loop) through the runner context
				ctxDone = true
				w.CancelCtx()
				i--
				continue
			}
			break
		}
		if i >= horizon {
			ex.Horizon = true
			break
		}
		choice := 0
		if i < len(prefix) {
			choice = prefix[i]
			if choice >= len(cs) {
				panic(InfraError{fmt.Sprintf("replay divergence in %s at point %d: choice %d of %d (%v)", sc.Name, i, choice, len(cs), p.labels)})
			}
			if i < len(prefixPoints) && prefixPoints[i].labelsHash != p.labelsHash {
				panic(InfraError{fmt.Sprintf("replay divergence in %s at point %d: menu %v, recorded %v", sc.Name, i, p.labels, prefixPoints[i].labels)})
			}
		} else if useCache {
			key := vsched.Mix(w.S.Key(), w.envKey())
			rem := int8(x.Bound - used + 1)
			if old, ok := x.cache[key]; ok && old >= rem {
				ex.Cut = true
				x.Cuts++
				break
			} else if !ok {
				x.States++
			}
			x.cache[key] = rem
		}
		ex.Points = append(ex.Points, p)
		ex.CostAt = append(ex.CostAt, used)
		ex.Choices = append(ex.Choices, choice)
		used += p.cost(choice)
		if p.runningEnabled && choice != 0 && cs[0].T != nil {
			delayed[cs[0].T] = true
		}
		if cs[choice].T != nil {
			delete(delayed, cs[choice].T)
		}
		w.take(cs[choice])
		x.Steps++
	}
	if !ex.Cut && !ex.Horizon {
		// quiescent and fully drained: anything still parked that is not a poller-at-rest is a deadlock
		var stuck []string
		for _, t := range w.S.Live() {
			if strings.HasPrefix(t.Pending(), "func:wait-") {
				continue // a driver whose precondition never came true in this execution: not a thread of the system under test
			}
			if sc.NoTick && strings.HasPrefix(t.Pending(), "sleep:") {
				continue // the scenario froze the clock: a sleeper (the persist loop between two saves) cannot wake up by construction
			}
			stuck = append(stuck, t.Name+"@"+t.Pending())
		}
		if len(stuck) > 0 {
			ex.Deadlock = strings.Join(stuck, ", ")
		}
	}
	return ex
}

func (w *World) envKey() uint64 {
	var h uint64 = 99
	for _, m := range w.Mocks {
		for _, rs := range m.runs {
			v := uint64(0)
			if rs.parked {
				v |= 1
			}
			if rs.decided {
				v |= 2
			}
			if rs.ok {
				v |= 4
			}
			if rs.cancelled {
				v |= 8
			}
			if rs.cancelPending {
				v |= 16
			}
			h = vsched.Mix(h, v)
		}
		if m.cancelled {
			h = vsched.Mix(h, 0x55)
		}
	}
	if w.forcedDone {
		h = vsched.Mix(h, 0x66)
	}
	return h
}

func (x *X1) finish(ex *Exec) {
	x.Execs++
	if len(ex.Choices) > x.MaxDepth {
		x.MaxDepth = len(ex.Choices)
	}
	w := ex.W
	if !ex.Cut {
		var vs []Violation
		if w.S.Panic != nil {
			vs = append(vs, panicViolation(w.S.Panic, w.S.PanicStack))
		}
		if ex.Horizon {
			vs = append(vs, Violation{Property: "*", Rule: "livelock", Msg: "step horizon reached", Norm: "livelock"})
		}
		if ex.Deadlock != "" {
			vs = append(vs, Violation{Property: "*", Rule: "deadlock", Msg: "threads parked forever: " + ex.Deadlock, Norm: "deadlock"})
		}
		if w.S.LockHazard != "" {
			vs = append(vs, Violation{Property: "*", Rule: "deadlock", Msg: w.S.LockHazard, Norm: "recursive-read-lock"})
		}
		if x.Sc.Check != nil {
			vs = append(vs, x.Sc.Check(w, ex)...)
		}
		vs = append(vs, w.quiescentViol...)
		if x.AfterExec != nil {
			vs = append(vs, x.AfterExec(ex)...)
		}
		out := "none"
		if vsched.RaceBuild {
			out = w.lastDump.Short()
		} else {
			out = w.dump().Short()
		}
		x.Outcomes[out]++
		if len(x.Samples) < 2 {
			x.Samples = append(x.Samples, fmt.Sprintf("%s: choices=%v final=%s", x.Sc.Name, ex.Choices, out))
		}
		for _, v := range vs {
			if len(x.Viol) < 50 {
				fv := FoundViolation{Violation: v, Scenario: x.Sc.Name, Choices: append([]int(nil), ex.Choices...)}
				for i, c := range ex.Choices {
					fv.Labels = append(fv.Labels, ex.Points[i].labels[c])
				}
				for _, e := range w.Log {
					fv.Log = append(fv.Log, e.String())
				}
				x.Viol = append(x.Viol, fv)
			}
		}
	}
	w.Close()
	if x.AfterClose != nil {
		x.AfterClose()
	}
}

func (x *X1) explore(prefix []int, prefixPoints []point) {
	if x.TimedOut || (x.stopAtFirst && len(x.Viol) > 0) {
		return
	}
	if x.Deadline.Exceeded() {
		x.TimedOut = true
		return
	}
	if x.MaxExecs > 0 && x.Execs >= x.MaxExecs {
		x.TimedOut = true
		return
	}
	ex := x.run(prefix, prefixPoints, true)
	choices, points, costAt := ex.Choices, ex.Points, ex.CostAt
	x.finish(ex)
	for i := len(prefix); i < len(points); i++ {
		p := points[i]
		for alt := 1; alt < p.n; alt++ {
			if costAt[i]+p.cost(alt) > x.Bound {
				x.BoundHit = true
				continue
			}
			np := append(append([]int(nil), choices[:i]...), alt)
			x.explore(np, points[:i+1])
			if x.TimedOut {
				return
			}
		}
	}
}

// Run explores the scenario with deviation bounds 0..Bound (iteratively, so that the first
// counterexample has the fewest deviations)
func (x *X1) Run() {
	max := x.Bound
	x.Prescribed = max
	for b := 0; ; b++ {
		bonus := b > max
		prevStates, prevExecs := x.States, x.Execs
		if bonus {
			if x.Bonus.cpu == 0 || x.Bonus.Exceeded() || b > max+4 {
				break
			}
			if x.Deadline.cpu == 0 || x.Bonus.cpu < x.Deadline.cpu {
				x.Deadline = x.Bonus
			}
		}
		x.Bound = b
		x.BoundHit = false
		x.cache = map[uint64]int8{}
		x.States = 0
		x.explore(nil, nil)
		if bonus && x.TimedOut && len(x.Viol) == 0 {
			// the prescribed exploration was complete; this round is extra and simply stops here
			x.TimedOut = false
			x.BoundHit = true
			x.Bound = b - 1
			x.States = prevStates
			x.BonusNote = fmt.Sprintf("bonus deviation bound %d started after the prescribed bound %d, stopped by its CPU allowance after %d executions (not counted as completed)", b, max, x.Execs-prevExecs)
			break
		}
		if bonus {
			x.BonusNote = fmt.Sprintf("bonus deviation bound %d completed beyond the prescribed bound %d", b, max)
		}
		if len(x.Viol) > 0 || x.TimedOut || !x.BoundHit {
			break
		}
	}
}

// Replay runs one recorded schedule and returns the execution (for --replay and the determinism gate)
func (x *X1) Replay(choices []int) *Exec {
	return x.run(choices, nil, false)
}

// ---------------------------------------------------------------------------------------------
// X2

// XEvent is one event of an X2 history
type XEvent struct {
	Kind string        `json:"k"` // S Sbad C Dok Dfail Adv R Save
	P    string        `json:"p,omitempty"`
	Job  int           `json:"j,omitempty"`
	Task string        `json:"t,omitempty"`
	D    time.Duration `json:"d,omitempty"`
	Def  int           `json:"def,omitempty"`
	Var  int           `json:"v,omitempty"` // S: the request carries the job variable n=<Var> (0: no variables)
}

func (e XEvent) String() string {
	switch e.Kind {
	case "S", "Sbad":
		if e.Var != 0 {
			return fmt.Sprintf("%s(%s,n=%d)", e.Kind, e.P, e.Var)
		}
		return e.Kind + "(" + e.P + ")"
	case "C":
		return fmt.Sprintf("C(%d)", e.Job)
	case "Dok", "Dfail":
		return fmt.Sprintf("%s(%d,%s)", e.Kind, e.Job, e.Task)
	case "Adv":
		return fmt.Sprintf("Adv(%v)", e.D)
	case "R":
		return fmt.Sprintf("R(%d)", e.Def)
	}
	return e.Kind
}

// ApplyX applies one X2 event: API operations run on a fresh driver thread
func (w *World) ApplyX(e XEvent) bool {
	switch e.Kind {
	case "S", "Sbad":
		op := Op{Kind: e.Kind, Pipeline: e.P}
		if e.Var != 0 {
			op.Vars = map[string]interface{}{"n": e.Var}
		}
		w.SpawnDriver(op)
	case "C":
		w.SpawnDriver(Op{Kind: "C", Job: e.Job})
	case "R":
		w.SpawnDriver(Op{Kind: "R", Def: e.Def})
	case "Save":
		w.SpawnDriver(Op{Kind: "Save"})
	case "SaveF":
		// a save whose write to the store fails
		if w.Store != nil {
			w.Store.failNext = true
		}
		w.SpawnDriver(Op{Kind: "Save"})
	case "Dok", "Dfail":
		// the task of job e.Job that is parked (latest runner instance of that job)
		for _, rs := range w.ParkedRuns() {
			if w.Mocks[rs.inst-1].job == e.Job && rs.task == e.Task {
				k := "done"
				if e.Kind == "Dfail" {
					k = "fail"
				}
				return w.Apply(EnvEvent{Kind: k, Inst: rs.inst, Task: rs.task})
			}
		}
		return false
	case "Adv":
		// discrete-event semantics: the clock stops at every deadline on the way (a timer or sleeper that is due runs
		// at its own deadline, with everything it triggers, before time moves on)
		remaining := e.D
		w.log(Event{Kind: EvEnv, Detail: EnvEvent{Kind: "adv", D: e.D}.String()})
		for guard := 0; remaining > 0; guard++ {
			if guard > 1000 {
				return false
			}
			nd, ok := w.S.NextDeadline()
			if !ok || nd > remaining {
				w.S.Advance(remaining)
				break
			}
			if nd <= 0 {
				nd = 0
			}
			w.S.Advance(nd)
			remaining -= nd
			if !w.Quiesce() {
				return false
			}
		}
	default:
		panic("unknown X event " + e.Kind)
	}
	return true
}

// Quiesce runs all threads under the canonical default schedule until none is enabled
func (w *World) Quiesce() bool {
	for i := 0; i < 20000; i++ {
		w.S.FireDue()
		en := w.S.Enabled()
		if len(en) == 0 {
			return true
		}
		w.S.Step(en[0])
	}
	return false
}

// Drain completes every parked task with ok and ticks through all timers until nothing is left
func (w *World) Drain(maxRounds int) bool {
	for i := 0; i < maxRounds; i++ {
		if !w.Quiesce() {
			return false
		}
		if rs := w.ParkedRuns(); len(rs) > 0 {
			w.Apply(EnvEvent{Kind: "done", Inst: rs[0].inst, Task: rs[0].task})
			continue
		}
		if _, ok := w.S.NextDeadline(); ok {
			w.Apply(EnvEvent{Kind: "tick"})
			continue
		}
		return true
	}
	return false
}

// StateKey is the canonical form of a quiescent state for X2 deduplication
func (w *World) StateKey(symmetry bool) string {
	d := w.dump()
	now := w.S.Elapsed()
	var sb strings.Builder
	// rename jobs: terminal jobs that are older than every non-terminal job, on no wait list and
	// without a pending timer influence the future only through retention -> rank among live
	onList := map[int]bool{}
	for _, l := range d.WaitLists {
		for _, j := range l {
			onList[j] = true
		}
	}
	ren := map[int]int{}
	next := 1
	oldestLive := 1 << 30
	for _, j := range d.Jobs {
		if !j.Terminal() || onList[j.Idx] || j.HasTimer || j.HasSched {
			if j.Idx < oldestLive {
				oldestLive = j.Idx
			}
		}
	}
	for _, j := range d.Jobs {
		if symmetry && j.Idx < oldestLive {
			ren[j.Idx] = 0 // dropped from the key
			continue
		}
		ren[j.Idx] = next
		next++
	}
	fmt.Fprintf(&sb, "def=%d sd=%v|", w.DefIdx, d.ShuttingDown)
	if w.Opts.LogDirPath != "" {
		// the log directories on disk are state too (a directory left behind by a job the runner has forgotten)
		var ids []string
		if ents, err := os.ReadDir(w.Opts.LogDirPath); err == nil {
			for _, e := range ents {
				if e.IsDir() {
					ids = append(ids, shortID(e.Name()))
				}
			}
		}
		sort.Strings(ids)
		fmt.Fprintf(&sb, "logs=%s|", strings.Join(ids, ","))
	}
	if d.PersistPending > 0 {
		// a buffered save request: the persist loop will save once more when its pause ends
		fmt.Fprintf(&sb, "persist-pending|")
	}
	for _, j := range d.Jobs {
		r := ren[j.Idx]
		if r == 0 {
			continue
		}
		fmt.Fprintf(&sb, "J%d:%s c=%v x=%v s=%v t=%v sch=%v e=%v d=%v b=%v", r, j.Pipeline, j.Completed, j.Canceled, j.Start != nilDur, j.HasTimer, j.HasSched, j.LastError != "", j.StartDelay, j.Bad)
		if j.Waiting() {
			// how long it has waited relative to its delay matters for the future
			waited := now - j.Created
			cls := "lt"
			if waited >= j.StartDelay {
				cls = "ge"
			}
			fmt.Fprintf(&sb, " w=%s", cls)
		}
		if rp := w.maxRetentionPeriod(j.Pipeline); rp > 0 {
			// a job's age relative to the retention period (of any definition of its pipeline in this configuration) decides
			// what a save does with it once it has finished
			age := now - j.Created
			if age > rp {
				age = rp + time.Minute
			}
			fmt.Fprintf(&sb, " age=%d", int(age/time.Minute))
		}
		sb.WriteString("[")
		for _, t := range j.Tasks {
			fmt.Fprintf(&sb, "%s=%s,%v,%v,%v;", t.Name, t.Status, t.Errored, t.Canceled, t.HasEnd)
			if t.Allow || len(t.Deps) > 0 {
				// the job's own snapshot of what decides its future: allow_failure and the dependencies of each task
				// (after a reload jobs of one pipeline differ in them)
				fmt.Fprintf(&sb, "{%v<-%s}", t.Allow, strings.Join(t.Deps, "+"))
			}
		}
		sb.WriteString("]")
		sb.WriteString(j.Stages)
		sb.WriteString(" ")
	}
	ps := make([]string, 0, len(d.WaitLists))
	for p := range d.WaitLists {
		ps = append(ps, p)
	}
	sort.Strings(ps)
	for _, p := range ps {
		sb.WriteString("wl " + p + ":")
		for _, j := range d.WaitLists[p] {
			fmt.Fprintf(&sb, "%d,", ren[j])
		}
		sb.WriteString("|")
	}
	// the order of the runner's job list, where it is not the order of acceptance (removals by retention put the last
	// entry in the place of the removed one): code that derives an order from that list has different futures
	bp := make([]string, 0, len(d.ByPipeline))
	for p := range d.ByPipeline {
		bp = append(bp, p)
	}
	sort.Strings(bp)
	for _, p := range bp {
		var seq []int
		for _, j := range d.ByPipeline[p] {
			if r := ren[j]; r != 0 {
				seq = append(seq, r)
			}
		}
		if !sort.IntsAreSorted(seq) {
			fmt.Fprintf(&sb, "ord %s:%v|", p, seq)
		}
	}
	// mock state: parked runs and cancelled runners per (renamed) job
	orphans := 0
	for _, m := range w.Mocks {
		r := ren[m.job]
		if r == 0 {
			if d.Job(m.job) == nil {
				for _, rs := range m.runs {
					if rs.parked && !rs.exited {
						orphans++ // a task still executing for a job the runner no longer knows
					}
				}
			}
			continue
		}
		fmt.Fprintf(&sb, "M%d:x=%v", r, m.cancelled)
		for _, rs := range m.runs {
			fmt.Fprintf(&sb, " %s:p=%v,d=%v,e=%v", rs.task, rs.parked, rs.decided, rs.exited)
		}
		sb.WriteString("|")
	}
	if orphans > 0 {
		fmt.Fprintf(&sb, "orphan-runs=%d|", orphans)
	}
	// pending timers as offsets from now, by owner job is implicit in HasTimer; keep the multiset
	var offs []string
	for _, tm := range w.S.PendingTimers() {
		offs = append(offs, fmt.Sprint(tm.Deadline()-now))
	}
	sort.Strings(offs)
	sb.WriteString("T" + strings.Join(offs, ","))
	// live threads that are not pollers/mock runs (e.g. something stuck)
	for _, t := range w.S.Live() {
		sb.WriteString(" th:" + t.Tag + "@" + t.Kind().String())
		if t.Kind() == vsched.OpSleep {
			// a sleeper (the persist loop between a request and its save) wakes at a definite time
			fmt.Fprintf(&sb, "+%d", t.SleepUntil()-int64(now))
		}
	}
	return sb.String()
}

// panicViolation: a panic of a managed thread whose innermost frame is production code is a verdict for whichever
// property is being checked - the runner crashes in an execution the property quantifies over. A panic that
// originates in the harness is an infrastructure failure.
func panicViolation(p interface{}, stack []byte) Violation {
	if origin := panicOrigin(string(stack)); origin != "production" {
		panic(InfraError{fmt.Sprintf("panic in harness code on a managed thread (%s): %v\n%s", origin, p, stack)})
	}
	return Violation{Property: "*", Rule: "panic", Msg: fmt.Sprintf("the runner panics in this execution: %v\n%s", p, stack), Norm: "panic"}
}

func panicOrigin(stack string) string {
	i := strings.Index(stack, "\npanic(")
	if i < 0 {
		return "unknown"
	}
	lines := strings.Split(stack[i+1:], "\n")
	for _, l := range lines[1:] {
		if l == "" || strings.HasPrefix(l, "\t") || strings.HasPrefix(l, "runtime.") || strings.HasPrefix(l, "panic(") || strings.HasPrefix(l, "created by") {
			continue
		}
		if strings.HasPrefix(l, "github.com/Flowpack/prunner/zverif/") {
			continue
		}
		if strings.HasPrefix(l, "github.com/Flowpack/prunner") {
			return "production"
		}
		return "harness: " + l
	}
	return "unknown"
}

func (w *World) maxRetentionPeriod(pipeline string) time.Duration {
	var m time.Duration
	for _, d := range w.Opts.Defs {
		if d == nil {
			continue
		}
		if pd, ok := d.Pipelines[pipeline]; ok && pd.RetentionPeriod > m {
			m = pd.RetentionPeriod
		}
	}
	return m
}
