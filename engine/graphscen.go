package main

import (
	"fmt"
	"sort"
	"strings"
)

func intp(i int) *int { return &i }

func twoPipeDefs(p PipeCfg) []*definitionPipelinesDef {
	return []*definitionPipelinesDef{mkDefs(map[string]PipeCfg{"p": p, "q": {Conc: 2, QL: -1, Graph: graphOne}})}
}

func c02Scenarios(tier string) []*Scenario {
	var scs []*Scenario
	maxCyc, maxDag := 3, 3
	dagBound := 2
	if tier == "thorough" {
		maxCyc, maxDag = 4, 4
	}
	// cyclic graphs: never run a task, end canceled with an error, do not disturb other jobs
	for n := 1; n <= maxCyc; n++ {
		for _, g := range allDigraphs(n) {
			if isDAG(g) {
				continue
			}
			g := g
			scs = append(scs, &Scenario{
				Name: "cyclic/" + graphString(g),
				Desc: "a job of another pipeline runs; a job with a cyclic graph is scheduled; then another job",
				Opts: func() WorldOpts { return WorldOpts{Defs: twoPipeDefs(PipeCfg{Conc: 1, QL: -1, Graph: g})} },
				Setup: func(w *World) {
					w.SpawnDriver(Op{Kind: "S", Pipeline: "q"}, Op{Kind: "S", Pipeline: "p"}, Op{Kind: "S", Pipeline: "q"}, Op{Kind: "S", Pipeline: "p"})
				},
				Check: func(w *World, x *Exec) []Violation {
					vs := allMonitors(w, false)
					d := w.dump()
					for _, idx := range []int{2, 4} {
						j := d.Job(idx)
						f := buildFacts(w.Log, d)
						if j == nil {
							vs = append(vs, Violation{Property: "C02", Rule: "cyclic", Norm: "cyclic-job-rejected-or-missing", Msg: fmt.Sprintf("job %d with cyclic graph {%s} is not reported", idx, graphString(g))})
							continue
						}
						if len(f.Jobs[idx].Runs) > 0 || !j.Canceled || j.LastError == "" || j.Started() {
							vs = append(vs, Violation{Property: "C02", Rule: "cyclic", Norm: "cyclic-job-not-canceled-with-error",
								Msg: fmt.Sprintf("job %d with cyclic graph {%s} must run no task and end canceled with an error, unstarted: %s (tasks begun: %d)", idx, graphString(g), jobStr(j), len(f.Jobs[idx].Runs))})
						}
					}
					for _, idx := range []int{1, 3} {
						if j := d.Job(idx); j == nil || !plainSuccess(j) {
							vs = append(vs, Violation{Property: "C02", Rule: "cyclic-isolation", Norm: "cyclic-job-disturbs-other-job",
								Msg: fmt.Sprintf("job %d of another pipeline did not complete successfully next to a job with cyclic graph {%s}: %s", idx, graphString(g), jobStr(j))})
						}
					}
					return vs
				},
				NoTick: true, Bound: intp(0),
			})
		}
	}
	if true {
		// the 543 DAGs on four tasks: in the quick tier only the order / cycle-detector obligations (no executions)
		scs = append(scs, &Scenario{
			Name:  "dag4-static/all-543-dags",
			Desc:  "reported task order and acceptance by the graph builder for every DAG on four tasks, every permutation of the task list",
			Opts:  func() WorldOpts { return WorldOpts{Defs: defsOf(PipeCfg{Conc: 1, QL: -1, Graph: graphDiamond})} },
			Setup: func(w *World) { w.SpawnDriver(Op{Kind: "S", Pipeline: "p"}) },
			Static: func() []Violation {
				var vs []Violation
				for _, g := range allDAGs(4) {
					vs = append(vs, checkSortAndCycle(g)...)
					vs = append(vs, checkAccepted(withDiamonds(g))...)
				}
				for n := 1; n <= 3; n++ {
					for _, g := range allDAGs(n) {
						vs = append(vs, checkAccepted(withDiamonds(g))...)
					}
				}
				return dedupV(vs)
			},
			Check:  func(w *World, x *Exec) []Violation { return allMonitors(w, false) },
			NoTick: true, Bound: intp(0),
		})
	}
	for n := 1; n <= maxDag; n++ {
		for _, g := range allDAGs(n) {
			g := g
			b := dagBound
			if n == 4 {
				b = 1
			}
			scs = append(scs, &Scenario{
				Name:  fmt.Sprintf("dag%d/%s", n, graphString(g)),
				Desc:  "one job with this acyclic graph; every order in which running tasks finish, every schedule up to the bound",
				Opts:  func() WorldOpts { return WorldOpts{Defs: defsOf(PipeCfg{Conc: 1, QL: -1, Graph: g})} },
				Setup: func(w *World) { w.SpawnDriver(Op{Kind: "S", Pipeline: "p"}) },
				Static: func() []Violation {
					vs := checkSortAndCycle(g)
					for _, dg := range withDuplicateDeps(g) {
						vs = append(vs, checkSortAndCycle(dg)...)
					}
					return vs
				},
				Check: func(w *World, x *Exec) []Violation {
					vs := allMonitors(w, false)
					if j := w.dump().Job(1); j == nil || !plainSuccess(j) {
						vs = append(vs, Violation{Property: "C02", Rule: "dag-completes", Norm: "acyclic-graph-does-not-complete",
							Msg: fmt.Sprintf("a job with acyclic graph {%s} whose tasks all succeed does not end as a plain success: %s", graphString(g), jobStr(j))})
					}
					return vs
				},
				NoTick: true, Bound: intp(b),
			})
		}
	}
	// tasks without commands (a task that only declares depends_on is a valid definition): they are scheduled like any
	// other task - after their dependencies, through the runner, before their dependents
	for n := 1; n <= 3; n++ {
		for _, g := range allDAGs(n) {
			for e := 0; e <= n; e++ {
				g, e := g, e
				script := map[string][]string{}
				label := "all"
				if e < n {
					script[taskNames[e]] = []string{}
					label = taskNames[e]
				} else {
					if n == 1 {
						continue
					}
					for i := 0; i < n; i++ {
						script[taskNames[i]] = []string{}
					}
				}
				scs = append(scs, &Scenario{
					Name:  fmt.Sprintf("emptyscript/dag%d/%s/empty=%s", n, graphString(g), label),
					Desc:  "one job whose named task(s) have no commands; every completion order, every schedule up to the bound",
					Opts:  func() WorldOpts { return WorldOpts{Defs: defsOf(PipeCfg{Conc: 1, QL: -1, Graph: g, Script: script})} },
					Setup: func(w *World) { w.SpawnDriver(Op{Kind: "S", Pipeline: "p"}) },
					Check: func(w *World, x *Exec) []Violation {
						vs := allMonitors(w, false)
						if j := w.dump().Job(1); j == nil || !plainSuccess(j) {
							vs = append(vs, Violation{Property: "C02", Rule: "dag-completes", Norm: "acyclic-graph-does-not-complete",
								Msg: fmt.Sprintf("a job with acyclic graph {%s} (tasks without commands: %s) whose tasks all succeed does not end as a plain success: %s", graphString(g), label, jobStr(j))})
						}
						return vs
					},
					NoTick: true, Bound: intp(1),
				})
			}
		}
	}
	// the failure / allow_failure family (same scenarios as C08; here the run-once / dependencies-first monitor decides)
	for _, sc := range c08Scenarios(tier) {
		// quick tier: every graph on one and two tasks, and the three-task chain (a dependency that never ran because its
		// own dependency failed is not an "allowed failure")
		if tier != "thorough" && !strings.HasPrefix(sc.Name, "dag1/") && !strings.HasPrefix(sc.Name, "dag2/") && !strings.HasPrefix(sc.Name, "dag3/a b<-a c<-b/") {
			continue
		}
		sc.Name = "outcomes/" + sc.Name
		scs = append(scs, sc)
	}
	return scs
}

func c08Scenarios(tier string) []*Scenario {
	var scs []*Scenario
	maxN := 3
	if tier == "thorough" {
		maxN = 4
	}
	for n := 1; n <= maxN; n++ {
		for _, g := range allDAGs(n) {
			for am := 0; am < 1<<uint(n); am++ {
				for _, cont := range []bool{false, true} {
					g, cont := g, cont
					allow := map[string]bool{}
					var an []string
					for i := 0; i < n; i++ {
						if am&(1<<uint(i)) != 0 {
							allow[taskNames[i]] = true
							an = append(an, taskNames[i])
						}
					}
					sort.Strings(an)
					b := 1
					if n == 4 {
						b = 0
					} else if tier == "thorough" {
						b = 2
					} else if n == 3 && len(g["a"])+len(g["b"])+len(g["c"]) == 0 {
						b = 0 // three independent tasks with every outcome assignment: all completion orders, no preemptions, in the quick tier
					}
					cfg := PipeCfg{Conc: 1, QL: -1, Graph: g, Allow: allow, Continue: cont}
					scs = append(scs, &Scenario{
						Name:   fmt.Sprintf("dag%d/%s/allow=%s/continue=%v", n, graphString(g), strings.Join(an, ""), cont),
						Desc:   "one job; every assignment of success/failure to its tasks, every completion order, every schedule up to the bound",
						Opts:   func() WorldOpts { return WorldOpts{Defs: defsOf(cfg)} },
						Setup:  func(w *World) { w.SpawnDriver(Op{Kind: "S", Pipeline: "p"}) },
						Check:  func(w *World, x *Exec) []Violation { return allMonitors(w, false) },
						FailOK: true, NoTick: true, Bound: intp(b),
					})
				}
			}
		}
	}
	if maxN < 4 {
		// quick tier: two four-task shapes with every outcome assignment and completion order (no preemptions): a join
		// whose one branch is a chain (the failure of the short branch arrives while the long one is still waiting), and
		// the diamond
		for _, g := range []map[string][]string{{"a": nil, "c": nil, "b": {"c"}, "d": {"a", "b"}}, graphDiamond} {
			for _, cont := range []bool{false, true} {
				g, cont := g, cont
				cfg := PipeCfg{Conc: 1, QL: -1, Graph: g, Continue: cont}
				scs = append(scs, &Scenario{
					Name:   fmt.Sprintf("dag4/%s/allow=/continue=%v", graphString(g), cont),
					Desc:   "one job; every assignment of success/failure to its tasks, every completion order",
					Opts:   func() WorldOpts { return WorldOpts{Defs: defsOf(cfg)} },
					Setup:  func(w *World) { w.SpawnDriver(Op{Kind: "S", Pipeline: "p"}) },
					Check:  func(w *World, x *Exec) []Violation { return allMonitors(w, false) },
					FailOK: true, NoTick: true, Bound: intp(0),
				})
			}
		}
	}
	return scs
}
