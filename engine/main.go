package main

import (
	"bufio"
	"crypto/sha1"
	"encoding/json"
	"flag"
	"fmt"
	"os"
	"os/exec"
	"path/filepath"
	"runtime"
	"sort"
	"strconv"
	"strings"
	"sync"
	"time"
)

// verifDir is the root of the verification framework: $VERIF_DIR, else two levels above the binary
// (<root>/.cache/bin/engine), else /verif
var verifDir = func() string {
	if d := os.Getenv("VERIF_DIR"); d != "" {
		return d
	}
	if exe, err := os.Executable(); err == nil {
		d := filepath.Dir(filepath.Dir(filepath.Dir(exe)))
		if _, err := os.Stat(filepath.Join(d, "MANIFEST.json")); err == nil {
			return d
		}
	}
	return "/verif"
}()

// Unit is one independently runnable piece of a check (one worker process runs one unit)
type Unit struct {
	Prop  string `json:"prop"`
	Tier  string `json:"tier"`
	Kind  string `json:"kind"`
	Index int    `json:"index"`
	Name  string `json:"name"`
	Bin   string `json:"bin,omitempty"` // "" = engine, "sp" = engine built with status points
}

// UnitResult is what a worker reports
type UnitResult struct {
	Unit        Unit             `json:"unit"`
	Name        string           `json:"name"`
	Execs       int              `json:"execs"`
	States      int              `json:"states"`
	Transitions int              `json:"transitions"`
	MaxDepth    int              `json:"max_depth"`
	Bound       int              `json:"bound_completed"`
	Exhaustive  bool             `json:"exhaustive"`
	Unbounded   bool             `json:"unbounded"` // search closed without hitting the deviation bound
	Outcomes    int              `json:"distinct_outcomes"`
	Replays     int              `json:"determinism_replays"`
	Audits      int              `json:"merge_audits"`
	Caps        []string         `json:"caps_hit,omitempty"`
	Notes       []string         `json:"notes,omitempty"`
	Prescribed  int              `json:"bound_prescribed"`
	Samples     []string         `json:"samples,omitempty"`
	Viol        []FoundViolation `json:"violations,omitempty"`
	Infra       string           `json:"infra,omitempty"`
	WallS       float64          `json:"wall_s"`
	Extra       map[string]int   `json:"extra,omitempty"`
}

func main() {
	if len(os.Args) < 2 {
		fmt.Fprintln(os.Stderr, "usage: engine check <ID> [--tier quick|thorough] | unit <json> | replay <ID> <file>")
		os.Exit(3)
	}
	switch os.Args[1] {
	case "check":
		os.Exit(cmdCheck(os.Args[2:]))
	case "unit":
		os.Exit(cmdUnit(os.Args[2:]))
	case "replay":
		os.Exit(cmdReplay(os.Args[2:]))
	case "list":
		fs := flag.NewFlagSet("list", flag.ExitOnError)
		tier := fs.String("tier", "quick", "")
		fs.Parse(os.Args[3:])
		for _, u := range unitsFor(os.Args[2], *tier) {
			fmt.Printf("%d %s %s\n", u.Index, u.Kind, u.Name)
		}
	default:
		fmt.Fprintln(os.Stderr, "unknown command", os.Args[1])
		os.Exit(3)
	}
}

func seedFromEnv() int {
	if s := os.Getenv("VERIF_SEED"); s != "" {
		if n, err := strconv.Atoi(s); err == nil {
			return n
		}
	}
	return 0
}

// ---------------------------------------------------------------------------------------------
// worker

func cmdUnit(args []string) int {
	var u Unit
	if err := json.Unmarshal([]byte(args[0]), &u); err != nil {
		fmt.Fprintln(os.Stderr, "bad unit:", err)
		return 3
	}
	res := runUnitSafe(u)
	b, _ := json.Marshal(res)
	os.Stdout.Write(append(b, '\n'))
	if res.Infra != "" {
		return 3
	}
	return 0
}

func runUnitSafe(u Unit) (res UnitResult) {
	start := time.Now()
	defer func() {
		if r := recover(); r != nil {
			buf := make([]byte, 6000)
			buf = buf[:runtime.Stack(buf, false)]
			res.Unit = u
			res.Infra = fmt.Sprintf("%v\n%s", r, buf)
		}
		res.WallS = time.Since(start).Seconds()
	}()
	res = runUnit(u)
	res.Unit = u
	return res
}

// ---------------------------------------------------------------------------------------------
// parent

type knownFinding struct {
	Property string `json:"property"`
	Norm     string `json:"norm"`
	Where    string `json:"where"` // substring that must occur in the scenario / configuration name ("" = any)
	What     string `json:"what"`
}

type knownFile struct {
	Findings []knownFinding `json:"findings"`
	Fixed    []string       `json:"fixed"`
}

func loadKnown() knownFile {
	var k knownFile
	b, err := os.ReadFile(filepath.Join(verifDir, "known_findings.json"))
	if err == nil {
		_ = json.Unmarshal(b, &k)
	}
	return k
}

func cmdCheck(args []string) int {
	fs := flag.NewFlagSet("check", flag.ExitOnError)
	tier := fs.String("tier", "", "quick|thorough")
	procs := fs.Int("procs", runtime.NumCPU(), "worker processes")
	only := fs.String("only", "", "run only units whose name contains this")
	if len(args) < 1 {
		return 3
	}
	prop := args[0]
	fs.Parse(args[1:])
	if *tier == "" {
		*tier = os.Getenv("VERIF_TIER")
	}
	if *tier == "" {
		*tier = "quick"
	}
	start := time.Now()
	units := unitsFor(prop, *tier)
	if *only != "" {
		var f []Unit
		for _, u := range units {
			if strings.Contains(u.Name, *only) {
				f = append(f, u)
			}
		}
		units = f
	}
	if len(units) == 0 {
		fmt.Fprintf(os.Stderr, "no units for %s\n", prop)
		return 3
	}
	results := runPool(units, *procs)
	return report(prop, *tier, results, time.Since(start))
}

func runPool(units []Unit, procs int) []UnitResult {
	self, _ := os.Executable()
	race := len(units) > 0 && units[0].Prop == "C13"
	if race {
		self = filepath.Join(verifDir, ".cache", "bin", "engine-race")
		os.RemoveAll(filepath.Join(verifDir, ".cache", "race"))
		os.MkdirAll(filepath.Join(verifDir, ".cache", "race"), 0o755)
	}
	results := make([]UnitResult, len(units))
	var wg sync.WaitGroup
	ch := make(chan int)
	for p := 0; p < procs; p++ {
		wg.Add(1)
		go func() {
			defer wg.Done()
			for i := range ch {
				u := units[i]
				b, _ := json.Marshal(u)
				bin := self
				if u.Bin == "sp" {
					bin = filepath.Join(verifDir, ".cache", "bin", "engine-sp")
				}
				if u.Bin == "race" {
					bin = filepath.Join(verifDir, ".cache", "bin", "engine-race")
					os.MkdirAll(filepath.Join(verifDir, ".cache", "race"), 0o755)
				}
				cmd := exec.Command(bin, "unit", string(b))
				cmd.Env = append(os.Environ(), "GOMAXPROCS=2")
				if u.Bin == "race" && !race {
					cmd.Env = append(cmd.Env, "GORACE=halt_on_error=0 log_path="+filepath.Join(verifDir, ".cache", "race", fmt.Sprintf("p%d", i)))
				}
				if race {
					cmd.Env = append(cmd.Env, "GOMAXPROCS=1")
					cmd.Env = append(cmd.Env, "GORACE=halt_on_error=0 log_path="+filepath.Join(verifDir, ".cache", "race", fmt.Sprintf("u%d", i)))
				}
				var stderr strings.Builder
				cmd.Stderr = &stderr
				// watchdog: a worker that hangs (e.g. a seeded change that blocks on a primitive the checker does not own)
				// is killed and reported as an infrastructure failure of that unit
				limit := 4*unitDeadline(u.Tier) + 4*time.Minute
				timer := time.AfterFunc(limit, func() {
					if cmd.Process != nil {
						cmd.Process.Kill()
					}
				})
				out, err := cmd.Output()
				timer.Stop()
				var r UnitResult
				ok := false
				sc := bufio.NewScanner(strings.NewReader(string(out)))
				sc.Buffer(make([]byte, 1<<20), 1<<28)
				for sc.Scan() {
					line := sc.Text()
					if strings.HasPrefix(line, "{") && json.Unmarshal([]byte(line), &r) == nil {
						ok = true
					}
				}
				if !ok {
					r = UnitResult{Unit: u, Name: u.Name, Infra: fmt.Sprintf("worker failed: %v\nstderr: %s", err, tail(stderr.String(), 4000))}
					if where := productionCrash(stderr.String()); where != "" {
						// the code under test crashed the (free-running) worker: a verdict, not a harness failure
						r = UnitResult{Unit: u, Name: u.Name, Viol: []FoundViolation{{Scenario: u.Name, Violation: Violation{Property: u.Prop, Rule: "crash", Norm: "runner-crashes:" + where,
							Msg: "the process running the real runner crashed in production code during this unit:\n" + tail(stderr.String(), 3000)}}}}
					}
				}
				results[i] = r
			}
		}()
	}
	for i := range units {
		ch <- i
	}
	close(ch)
	wg.Wait()
	return results
}

func tail(s string, n int) string {
	if len(s) > n {
		return s[len(s)-n:]
	}
	return s
}

type evidence struct {
	PropertyID  string                 `json:"property_id"`
	Tier        string                 `json:"tier"`
	Seed        int                    `json:"seed"`
	Level       string                 `json:"level"`
	Coverage    map[string]interface{} `json:"coverage"`
	Assumptions []string               `json:"assumptions"`
	WallS       float64                `json:"wall_s"`
	Violations  int                    `json:"violations"`
}

func report(prop, tier string, results []UnitResult, wall time.Duration) int {
	known := loadKnown()
	meta := propMeta[prop]
	tot := UnitResult{Exhaustive: true, Unbounded: true, Bound: 1 << 30}
	var samples []interface{}
	var caps, notes []string
	var unitSumm []map[string]interface{}
	infra := false
	var viols []FoundViolation
	for _, r := range results {
		if r.Infra != "" {
			infra = true
			fmt.Fprintf(os.Stderr, "INFRASTRUCTURE FAILURE in unit %s: %s\n", r.Unit.Name, r.Infra)
			continue
		}
		tot.Execs += r.Execs
		tot.States += r.States
		tot.Transitions += r.Transitions
		tot.Outcomes += r.Outcomes
		tot.Replays += r.Replays
		tot.Audits += r.Audits
		if r.MaxDepth > tot.MaxDepth {
			tot.MaxDepth = r.MaxDepth
		}
		if r.Bound < tot.Bound {
			tot.Bound = r.Bound
		}
		tot.Exhaustive = tot.Exhaustive && r.Exhaustive
		tot.Unbounded = tot.Unbounded && r.Unbounded
		for _, c := range r.Caps {
			caps = append(caps, r.Name+": "+c)
		}
		for _, c := range r.Notes {
			notes = append(notes, r.Name+": "+c)
		}
		if len(samples) < 6 {
			for _, s := range r.Samples {
				if len(samples) < 6 {
					samples = append(samples, s)
				}
			}
		}
		unitSumm = append(unitSumm, map[string]interface{}{"unit": r.Name, "executions": r.Execs, "states": r.States, "transitions": r.Transitions, "bound_completed": r.Bound, "bound_prescribed": r.Prescribed, "exhaustive": r.Exhaustive, "distinct_outcomes": r.Outcomes, "wall_s": r.WallS})
		for _, v := range r.Viol {
			if v.Property == prop || v.Property == "*" {
				v.Property = prop
				viols = append(viols, v)
			}
		}
	}
	// classify violations
	nviol := 0
	printedKnown := map[string]bool{}
	printedNorm := map[string]bool{}
	os.MkdirAll(filepath.Join(verifDir, "replays", prop), 0o755)
	for _, v := range viols {
		isKnown := false
		for _, k := range known.Findings {
			if k.Property == prop && k.Norm == v.Norm && (k.Where == "" || strings.Contains(v.Scenario, k.Where)) {
				isKnown = true
				key := k.Norm + "|" + k.Where
				if !printedKnown[key] {
					printedKnown[key] = true
					fmt.Printf("KNOWN-FINDING: property=%s %s\n", prop, k.What)
				}
			}
		}
		if isKnown {
			continue
		}
		nviol++
		key := v.Norm + "|" + v.Scenario
		if printedNorm[key] {
			continue
		}
		printedNorm[key] = true
		b, _ := json.MarshalIndent(v, "", " ")
		h := sha1.Sum(b)
		path := filepath.Join(verifDir, "replays", prop, fmt.Sprintf("%x.json", h[:6]))
		os.WriteFile(path, b, 0o644)
		fmt.Printf("VIOLATION property=%s replay=%s\n", prop, path)
		fmt.Printf("  scenario: %s\n  rule: %s\n  %s\n", v.Scenario, v.Rule, v.Msg)
	}
	if tot.Bound == 1<<30 {
		tot.Bound = 0
	}
	cov := map[string]interface{}{
		"states":                        tot.States,
		"transitions":                   tot.Transitions,
		"traces_validated_against_impl": tot.Execs,
		"evaluations":                   tot.Execs,
		"distinct_nontrivial":           tot.Outcomes,
		"rule":                          meta.Rule,
		"samples":                       samples,
		"schedules":                     tot.Execs,
		"deviation_bound_completed":     tot.Bound,
		"unbounded_in_preemptions":      tot.Unbounded,
		"max_depth":                     tot.MaxDepth,
		"distinct_outcomes":             tot.Outcomes,
		"determinism_replays":           tot.Replays,
		"merge_audits":                  tot.Audits,
		"caps_hit":                      caps,
		"bonus_deepening":               notes,
		"exhaustive":                    tot.Exhaustive && !infra,
		"units":                         unitSumm,
		"explanation":                   meta.Explanation,
	}
	ev := evidence{PropertyID: prop, Tier: tier, Seed: seedFromEnv(), Level: meta.Level, Coverage: cov, Assumptions: meta.Assumptions, WallS: wall.Seconds(), Violations: nviol}
	if !infra {
		b, _ := json.MarshalIndent(ev, "", " ")
		os.MkdirAll(filepath.Join(verifDir, "evidence"), 0o755)
		os.WriteFile(filepath.Join(verifDir, "evidence", prop+".json"), b, 0o644)
	}
	fmt.Printf("%s tier=%s units=%d executions=%d states=%d transitions=%d max_depth=%d outcomes=%d exhaustive=%v wall=%.1fs violations=%d\n",
		prop, tier, len(results), tot.Execs, tot.States, tot.Transitions, tot.MaxDepth, tot.Outcomes, tot.Exhaustive && !infra, wall.Seconds(), nviol)
	if nviol > 0 {
		// confirmed violations are a verdict even if another unit had an infrastructure failure
		return 1
	}
	if infra {
		return 3
	}
	return 0
}

// propInfo describes a property's check for the evidence file
type propInfo struct {
	Level       string
	Rule        string
	Explanation string
	Assumptions []string
}

var rmcAssumptions = []string{
	"scheduling points are the synchronisation operations of prunner.go and taskctl/scheduler.go (locks, wait groups, atomics, channel operations, goroutine starts, timers); code between two points is atomic, which is sound only for data-race-free code (C13 checks that separately)",
	"the scheduler's 50ms poll loop is modelled as blocking until a stage status or the cancel flag changes (sound because stage statuses are monotone)",
	"tasks are executed by a mock runner that follows the notification protocol of taskctl/runner.go; its conformance to the real runner is checked by the conformance unit",
	"map iteration order is canonical (sorted keys) instead of Go's random order",
}

var propMeta = map[string]propInfo{}

func sortedKeys(m map[string]int) []string {
	ks := make([]string, 0, len(m))
	for k := range m {
		ks = append(ks, k)
	}
	sort.Strings(ks)
	return ks
}

// ---------------------------------------------------------------------------------------------
// replay

func cmdReplay(args []string) int {
	if len(args) < 2 {
		return 3
	}
	prop, path := args[0], args[1]
	b, err := os.ReadFile(path)
	if err != nil {
		fmt.Fprintln(os.Stderr, err)
		return 3
	}
	var fv FoundViolation
	if err := json.Unmarshal(b, &fv); err != nil {
		fmt.Fprintln(os.Stderr, err)
		return 3
	}
	vs, logLines, err := replayViolation(prop, fv)
	if err != nil {
		fmt.Fprintln(os.Stderr, "replay failed:", err)
		return 3
	}
	for _, l := range logLines {
		fmt.Println(l)
	}
	n := 0
	for _, v := range vs {
		if v.Property == prop || v.Property == "*" {
			fmt.Printf("VIOLATION property=%s replay=%s\n  rule: %s\n  %s\n", prop, path, v.Rule, v.Msg)
			n++
		}
	}
	if n > 0 {
		return 1
	}
	fmt.Println("replay: no violation")
	return 0
}

func init() {
	propMeta["C09"] = propInfo{Level: "fault_enumeration",
		Assumptions: []string{"fault model: the process can be killed after any completed file-system call and after any prefix of a write (cut points: every byte for writes <= 256 B, else 1, n/2, n-1 and every multiple of 4096); completed calls persist. Power loss that reorders a rename before unsynced data is NOT modelled (stronger than the statement)",
			"store/store.go is rebuilt with os -> zverif/vos (pass-through to a real temp directory); the shim's fidelity is checked by the final load-after-save comparisons against the plain os package"},
		Rule:        "histories of 1-3 sequential saves over snapshot sizes {0, 1, 60, big}, every crash point (each completed call and each write cut) of each history; one more save with each of its calls failing once; two concurrent savers under every interleaving of their calls; a crash point is non-trivial/distinct when it is a different (call, offset) instant",
		Explanation: "exhaustive crash-point and fault enumeration on the real JsonDataStore"}
	propMeta["C11"] = propInfo{Level: "model_checking", Assumptions: rmcAssumptions,
		Rule:        "every schedule up to the deviation bound of Shutdown (graceful; forced with the context cancelled at every point) from nine prefix states, alone and racing with a schedule, cancel or save; plus the persist loop under the virtual clock; an execution is distinct when its final runner state differs",
		Explanation: "stateless DFS over thread interleavings of the real PipelineRunner under a controlled scheduler and virtual clock, with a recording data store"}
	propMeta["C04"] = propInfo{Level: "model_checking", Assumptions: rmcAssumptions,
		Rule:        "every schedule (up to the stated deviation bound, or unbounded where the happens-before cache closes the search) of small closed scenarios in which CancelJob races with a running, waiting or finished job; an execution is distinct when its final runner state differs",
		Explanation: "stateless DFS over thread interleavings of the real PipelineRunner/Scheduler under a controlled scheduler"}
}

func init() {
	x2rule := "explicit-state BFS over event histories (schedule, schedule-with-graph-error, cancel, task done/failed, clock advance, reload) of the real runner for every configuration of the grid, deduplicated by a canonical dump of the runner state; states = distinct canonical states, transitions = executed history extensions; an outcome is distinct when the reported runner state differs"
	for _, p := range []string{"C01", "C02", "C08", "C03", "C05", "C06", "C07", "C15", "C16"} {
		propMeta[p] = propInfo{Level: "model_checking", Assumptions: rmcAssumptions, Rule: x2rule,
			Explanation: "explicit-state BFS over event histories executed on the real PipelineRunner under a controlled scheduler and virtual clock"}
	}
}

func init() {
	propMeta["C13"] = propInfo{Level: "model_checking", Assumptions: append([]string{
		"the Go race detector's happens-before analysis is evaluated on every explored execution of a -race build; scheduler hand-offs are spins inside //go:norace functions, so the detector sees only the edges of the real primitives that the shims wrap",
		"reports whose two accesses are not both in production code of the repository (shim, harness, *_verif.go) are counted and ignored",
		"the scenario list (all pairs and chosen triples of exported operations against a live state) is the bound: accesses no scenario performs are not analysed"}, rmcAssumptions...),
		Rule:        "every schedule up to the deviation bound of every pair (and chosen triples) of exported operations running against a finished, a running and a waiting job plus the persist loop, in a race-detector build; an execution is distinct when its final runner state differs",
		Explanation: "stateless DFS over thread interleavings in a -race build with detector-invisible hand-offs"}
}

func init() {
	if len(os.Args) > 3 && os.Args[1] == "scenarios" {
		for i, sc := range x1Scenarios(os.Args[2], os.Args[3]) {
			b := -1
			if sc.Bound != nil {
				b = *sc.Bound
			}
			fmt.Printf("%d %s bound=%d\n", i, sc.Name, b)
		}
		os.Exit(0)
	}
}

func init() {
	if p := os.Getenv("VERIF_CPUPROFILE"); p != "" {
		f, _ := os.Create(p)
		pprofStart(f)
		go func() {
			time.Sleep(20 * time.Second)
			pprofStop()
			f.Close()
			os.Exit(0)
		}()
	}
}

func init() {
	procAssume := []string{"the jobs run real processes on the Go runtime and the kernel: their interleaving is NOT owned by the checker; the input grammar is enumerated exhaustively, the schedule is whatever happens",
		"the task runner is created exactly like the closure in app.go (NewTaskRunner + WithEnv(pipeline env), output discarded)"}
	propMeta["C18"] = propInfo{Level: "exploration", Assumptions: procAssume,
		Rule:        "every non-empty subset of the levels {process, pipeline, task} x 10 value classes (space, quotes, newline, $, =, UTF-8, backslash, glob ...) as one variable each, plus empty-value-wins cases, observed twice (interpreter expansion and child process environment) in two concurrent jobs with different values, in a task with and a task without task-level env; template rendering of string / int / float / list / map variables in two concurrent jobs; the reserved variable; a case is distinct per (name, job, observation path)",
		Explanation: "exhaustive over the stated input grammar on real processes"}
	propMeta["C19"] = propInfo{Level: "exploration", Assumptions: procAssume,
		Rule:        "every single-chunk output (stream x size in {0,1,4095,4096,4097,70001[,1MiB]} x trailing newline x builtin/exec producer), two- and three-command tasks over a reduced alphabet, 9 task names, every job twice concurrently; store reader and /job/logs must return exactly the generated bytes per (job, task, stream); a case is distinct per (job, task, stream)",
		Explanation: "exhaustive over the stated output grammar on real processes"}
	propMeta["C20"] = propInfo{Level: "exploration", Assumptions: append([]string{"process death is observed through /proc/*/environ (a per-run marker in the task env); zombies do not count as alive; allowance after the finished report: kill timeout (300ms) + 10s"}, procAssume...),
		Rule:        "process-tree grammar: 4 interpreter-level forms x child shell scripts (foreground, background+wait, background without wait, pipeline, subshell, trap INT; nested one level) + helpers daemonised by an earlier command, x cancel instants {all leaves running, at once} x {CancelJob, forced Shutdown}, with a bystander job that must survive; a case is one (shape, instant/mode)",
		Explanation: "exhaustive over the stated process-tree grammar on real processes"}
	propMeta["C14"] = propInfo{Level: "model_checking",
		Assumptions: []string{"routes and methods are discovered from the chi router of the real server (server.VerifRoutes + chi.Walk), so new routes are included",
			"expiry classes use +-1h offsets so that the wall clock inside the JWT library cannot flip a verdict",
			"requests are served by the handler in-process (httptest), not over a socket"},
		Rule:        "exhaustive finite product: every walked (method, route) x 14 invalid credential classes x 3 transports x profiling on/off x 3 request histories (fresh, after a valid header request, after a valid cookie request), plus every other standard method and slash variant on each pattern; a tuple is a distinct (route, method, credential, transport, profiling, history) combination",
		Explanation: "exhaustive enumeration of a finite input product against the real handler with a state-unchanged oracle on a live runner"}
	propMeta["C17"] = propInfo{Level: "model_checking",
		Assumptions: []string{"value grids per field kind are finite; fields are discovered by reflection and an unknown kind aborts the check", "map iteration order inside the definition package is owned by the checker (instrumented range-over-map) and enumerated for the validation cases"},
		Rule:        "bounded exhaustive inputs: 1024 definitions of the validation grid rendered to YAML and loaded; file-set layouts; for every field of PipelineDef / TaskDef (by reflection) all ordered pairs of a per-kind value grid compared by Equals against reference equality; a case is non-trivial when the two configurations differ / the definition is distinct",
		Explanation: "exhaustive enumeration of bounded input spaces of the loader, validator and Equals"}
	propMeta["C10"] = propInfo{Level: "model_checking", Assumptions: append([]string{"the restart is performed on the real JSON store in a temp directory and both reports are read through the real server handlers"}, rmcAssumptions...),
		Rule:        "explicit-state BFS over event histories; at every distinct state the runner is saved to a real JsonDataStore and a second runner is started from it; plus every JSON value of nesting depth <= 2 over 16 atoms as a job variable through the real schedule handler; states are distinct canonical runner states / distinct variable values",
		Explanation: "explicit-state BFS with a restart oracle at every state, and an exhaustive codec sweep"}
	propMeta["C12"] = propInfo{Level: "model_checking", Assumptions: append([]string{"log directories are real (FileOutputStore in a temp directory), written by the mock runner through the store"}, rmcAssumptions...),
		Rule:        "explicit-state BFS over histories of schedule / task outcome / cancel / clock advance / reload (pipeline removed) / save events for retention_count in {0,1,2} x retention_period in {0,1h}, optionally starting from jobs loaded from an earlier run; after every save the reference retention rules and the agreement of API, store and log directories are checked",
		Explanation: "explicit-state BFS over event histories with a retention oracle at every save"}
}

// productionCrash inspects the stderr of a dead worker: if it died from a Go panic / fatal error whose
// innermost non-runtime frame is production code of the repository, it returns that function name
func productionCrash(stderr string) string {
	i := strings.Index(stderr, "\npanic: ")
	if i < 0 {
		i = strings.Index(stderr, "\nfatal error: ")
	}
	if i < 0 && (strings.HasPrefix(stderr, "panic: ") || strings.HasPrefix(stderr, "fatal error: ")) {
		i = 0
	}
	if i < 0 {
		return ""
	}
	lines := strings.Split(stderr[i:], "\n")
	for k := 0; k+1 < len(lines); k++ {
		fn, loc := strings.TrimSpace(lines[k]), strings.TrimSpace(lines[k+1])
		if !strings.HasPrefix(loc, "/") {
			continue
		}
		file := strings.Fields(loc)[0]
		if strings.HasPrefix(fn, "runtime.") || strings.HasPrefix(fn, "panic(") || strings.Contains(file, "/src/runtime/") {
			continue
		}
		if strings.HasPrefix(file, "/repo/") && !strings.HasPrefix(file, "/repo/zverif/") && !strings.Contains(file, "_verif.go") {
			if j := strings.Index(fn, "("); j > 0 && !strings.HasPrefix(fn, "github.com/Flowpack/prunner.(") {
				fn = fn[:j]
			}
			return fn
		}
		return "" // the innermost frame is harness or library code
	}
	return ""
}
