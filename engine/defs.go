package main

import (
	"fmt"
	"sort"
	"strings"
	"time"

	"github.com/Flowpack/prunner"
	"github.com/Flowpack/prunner/definition"
)

// PipeCfg is a compact description of one pipeline definition
type PipeCfg struct {
	Conc      int
	QL        int // -1 = unset
	Replace   bool
	Delay     time.Duration
	Graph     map[string][]string // task -> depends_on
	Allow     map[string]bool
	Continue  bool
	RetCount  int
	RetPeriod time.Duration
	Env       map[string]string
	TaskEnv   map[string]map[string]string
	Script    map[string][]string
}

func (c PipeCfg) String() string {
	ql := "unset"
	if c.QL >= 0 {
		ql = fmt.Sprint(c.QL)
	}
	st := "append"
	if c.Replace {
		st = "replace"
	}
	var ts []string
	for t, d := range c.Graph {
		s := t
		if len(d) > 0 {
			s += "<-" + strings.Join(d, "+")
		}
		if c.Allow[t] {
			s += "!"
		}
		ts = append(ts, s)
	}
	sort.Strings(ts)
	s := fmt.Sprintf("conc=%d ql=%s %s d=%v tasks={%s}", c.Conc, ql, st, c.Delay, strings.Join(ts, " "))
	if c.Continue {
		s += " continue"
	}
	return s
}

func (c PipeCfg) Def() definition.PipelineDef {
	d := definition.PipelineDef{
		Concurrency:                      c.Conc,
		StartDelay:                       c.Delay,
		ContinueRunningTasksAfterFailure: c.Continue,
		RetentionCount:                   c.RetCount,
		RetentionPeriod:                  c.RetPeriod,
		Env:                              c.Env,
		Tasks:                            map[string]definition.TaskDef{},
		SourcePath:                       "verif",
	}
	if c.QL >= 0 {
		q := c.QL
		d.QueueLimit = &q
	}
	if c.Replace {
		d.QueueStrategy = definition.QueueStrategyReplace
	}
	for t, deps := range c.Graph {
		td := definition.TaskDef{Script: []string{"run " + t}, DependsOn: append([]string(nil), deps...), AllowFailure: c.Allow[t]}
		if s, ok := c.Script[t]; ok {
			td.Script = s
		}
		if e, ok := c.TaskEnv[t]; ok {
			td.Env = e
		}
		d.Tasks[t] = td
	}
	return d
}

func mkDefs(pipes map[string]PipeCfg) *definition.PipelinesDef {
	d := &definition.PipelinesDef{Pipelines: definition.PipelinesMap{}}
	for n, c := range pipes {
		d.Pipelines[n] = c.Def()
	}
	if err := d.Validate(); err != nil {
		panic(fmt.Sprintf("harness built an invalid definition: %v", err))
	}
	return d
}

var (
	graphOne     = map[string][]string{"a": nil}
	graphChain   = map[string][]string{"a": nil, "b": {"a"}}
	graphChain3  = map[string][]string{"a": nil, "b": {"a"}, "c": {"b"}}
	graphFork    = map[string][]string{"a": nil, "b": {"a"}, "c": {"a"}}
	graphDiamond = map[string][]string{"a": nil, "b": {"a"}, "c": {"a"}, "d": {"b", "c"}}
	graphPar     = map[string][]string{"a": nil, "b": nil}
)

type definitionPipelinesDef = definition.PipelinesDef

type prunnerPipelineInfo = prunner.PipelineInfo

// nilDur stands for "no time set" in dumps (times are durations relative to the virtual origin and
// may be negative for jobs loaded from an earlier run)
const nilDur = time.Duration(-1 << 63)
