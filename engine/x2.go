package main

// x2.go: explicit-state breadth-first search over event histories of the real runner.
// A state is the history that reaches it; a successor is computed by replaying the history on
// a fresh runner and applying one more event, then running every thread to quiescence under
// the canonical schedule.

import (
	"fmt"
	"os"
	"sort"
	"strings"
	"time"

	"github.com/Flowpack/prunner"
	"github.com/Flowpack/prunner/store"
	"github.com/Flowpack/prunner/taskctl"
)

type X2Config struct {
	Name         string
	Cfgs         []PipeCfg // definition alphabet for pipeline "p" (Cfgs[0] is the initial one)
	Depth        int
	Sbad         bool
	FailOK       bool
	Reload       bool
	Cancel       bool
	Save         bool
	Symmetry     bool
	AdvSteps     []time.Duration
	Props        map[string]bool // which monitors to run
	Drain        bool
	MaxStates    int
	DefsOverride []*definitionPipelinesDef // full definition sets (several pipelines); overrides Cfgs
	Pipes        []string
	LogDir       bool // real FileOutputStore in a temp directory; the mock runner writes a log per task
	Initial      *store.PersistedData
	Restart      bool     // C10: save + restart check at every new state
	Prefix       []XEvent // the search starts from the state this history leads to (Depth counts the events after it)
	Store        bool     // run with a store (and hence the persist loop) although Save is not in the alphabet
	AdvAlways    bool     // clock steps are offered in every state
	SaveFail     bool     // saves whose write to the store fails are in the alphabet (the next successful save is judged as usual)
	Svar         bool     // schedule requests that carry a job variable (a different value in every request) are in the alphabet too
	NoDedup      bool     // every history up to the depth is executed: no state is merged, so state the key cannot see (a flag, a cache, a counter a change may add) cannot hide a history
	logDir       string
}

func (c *X2Config) opts() WorldOpts {
	var defs []*definitionPipelinesDef
	if c.DefsOverride != nil {
		defs = c.DefsOverride
	} else {
		for _, pc := range c.Cfgs {
			defs = append(defs, mkDefs(map[string]PipeCfg{"p": pc}))
		}
	}
	o := WorldOpts{Defs: defs, WithStore: c.Save || c.Restart || c.Store, Initial: c.Initial}
	if c.LogDir {
		dir, err := os.MkdirTemp("", "verif-logs-")
		if err != nil {
			panic(err)
		}
		c.logDir = dir
		os, err := taskctl.NewOutputStore(dir)
		if err != nil {
			panic(err)
		}
		o.OutStore = os
		o.LogDirPath = dir
		if c.Initial != nil {
			// the jobs of the earlier run left their logs behind
			// (written through a store instance of their own, like the process of the earlier run did: the runner's store has
			// never seen these directories)
			earlier, err := taskctl.NewOutputStore(dir)
			if err != nil {
				panic(err)
			}
			for _, pj := range c.Initial.Jobs {
				if wr, err := earlier.Writer(pj.ID.String(), "a", "stdout"); err == nil {
					fmt.Fprintf(wr, "output of the earlier run of job %s\n", pj.ID)
					wr.Close()
				}
			}
		}
	}
	return o
}

func (c *X2Config) pipes() []string {
	if len(c.Pipes) > 0 {
		return c.Pipes
	}
	return []string{"p"}
}

// events returns the alphabet at the current (quiescent) state, simplest first
func (c *X2Config) events(w *World) []XEvent {
	d := w.dump()
	var evs []XEvent
	if !d.ShuttingDown {
		for _, p := range c.pipes() {
			evs = append(evs, XEvent{Kind: "S", P: p})
		}
		if c.Svar {
			for _, p := range c.pipes() {
				evs = append(evs, XEvent{Kind: "S", P: p, Var: w.Accepted + 1})
			}
		}
	}
	// runs of jobs the runner still knows first, then orphans (runs of a job a save has purged while it executes): the
	// position of an event in the alphabet must not depend on when the purged job was accepted
	parked := w.ParkedRuns()
	sort.SliceStable(parked, func(a, b int) bool {
		oa := d.Job(w.Mocks[parked[a].inst-1].job) == nil
		ob := d.Job(w.Mocks[parked[b].inst-1].job) == nil
		return !oa && ob
	})
	for _, rs := range parked {
		evs = append(evs, XEvent{Kind: "Dok", Job: w.Mocks[rs.inst-1].job, Task: rs.task})
	}
	advMatters := len(w.S.PendingTimers()) > 0 || c.AdvAlways
	if !advMatters && d.Defs != nil {
		// time also matters without a pending timer: a finished job that has not yet outlived its retention period
		now := w.S.Elapsed()
		for i := range d.Jobs {
			j := &d.Jobs[i]
			if rp := w.maxRetentionPeriod(j.Pipeline); rp > 0 && now-j.Created <= rp {
				advMatters = true
			}
		}
	}
	if advMatters {
		for _, a := range c.AdvSteps {
			evs = append(evs, XEvent{Kind: "Adv", D: a})
		}
	}
	if c.Cancel {
		for _, j := range d.Jobs {
			if !j.Terminal() {
				evs = append(evs, XEvent{Kind: "C", Job: j.Idx})
			}
		}
	}
	if c.FailOK {
		for _, rs := range parked {
			evs = append(evs, XEvent{Kind: "Dfail", Job: w.Mocks[rs.inst-1].job, Task: rs.task})
		}
	}
	if c.Sbad && !d.ShuttingDown {
		evs = append(evs, XEvent{Kind: "Sbad", P: "p"})
	}
	if c.Reload {
		ndefs := len(c.Cfgs)
		if c.DefsOverride != nil {
			ndefs = len(c.DefsOverride)
		}
		for i := 0; i < ndefs; i++ {
			if i != w.DefIdx {
				evs = append(evs, XEvent{Kind: "R", Def: i})
			}
		}
	}
	if c.Save {
		evs = append(evs, XEvent{Kind: "Save"})
	}
	if c.SaveFail {
		evs = append(evs, XEvent{Kind: "SaveF"})
	}
	return evs
}

// replayHist builds a fresh world and replays a history, logging a quiescent dump after each event
func (c *X2Config) replayHist(hist []XEvent) *World {
	w := NewWorld(c.opts())
	w.FailOK = c.FailOK
	w.Quiesce()
	w.log(Event{Kind: EvQuiescent, Dump: w.dump(), Detail: "init"})
	for _, ev := range hist {
		c.step(w, ev)
	}
	return w
}

func (c *X2Config) step(w *World, ev XEvent) bool {
	if c.LogDir && ev.Kind == "Save" {
		w.logsBefore = logDirState(w.Opts.LogDirPath)
	}
	ok := w.ApplyX(ev)
	q := w.Quiesce()
	w.log(Event{Kind: EvQuiescent, Dump: w.dump(), Detail: ev.String()})
	return ok && q
}

type X2Result struct {
	States      int
	Transitions int
	Execs       int
	MaxDepth    int
	Complete    bool // every level up to Depth was fully expanded
	DepthDone   int
	Outcomes    map[string]bool
	Viol        []FoundViolation
	Samples     []string
	Audits      int
	AuditFail   []string
	BonusNote   string
}

func histString(h []XEvent) string {
	var s []string
	for _, e := range h {
		s = append(s, e.String())
	}
	return strings.Join(s, " ")
}

func (c *X2Config) Run(deadline Budget, auditSlice int) *X2Result {
	return c.RunBonus(deadline, Budget{}, auditSlice)
}

// RunBonus: once every level up to c.Depth is expanded, further levels are expanded while the unit's CPU time is
// within bonus (zero value: off). A bonus level that is cut short is no cap on the prescribed search.
func (c *X2Config) RunBonus(deadline Budget, bonus Budget, auditSlice int) *X2Result {
	res := &X2Result{Outcomes: map[string]bool{}, Complete: true}
	type node struct{ hist []XEvent }
	seen := map[string][]XEvent{}
	w0 := c.replayHist(c.Prefix)
	seen[w0.StateKey(c.Symmetry)] = c.Prefix
	w0.Close()
	frontier := []node{{c.Prefix}}
	seenNorm := map[string]bool{}
	addViol := func(vs []Violation, hist []XEvent, w *World) {
		for _, v := range vs {
			k := v.Property + "|" + v.Norm
			if seenNorm[k] {
				continue
			}
			seenNorm[k] = true
			fv := FoundViolation{Violation: v, Scenario: c.Name + " :: " + histString(hist), Hist: append([]XEvent(nil), hist...), Config: c.Name}
			for _, e := range w.Log {
				fv.Log = append(fv.Log, e.String())
			}
			fv.Labels = []string{histString(hist)}
			res.Viol = append(res.Viol, fv)
		}
	}
	for depth := 0; len(frontier) > 0; depth++ {
		inBonus := depth >= c.Depth
		if inBonus {
			if bonus.cpu == 0 || bonus.Exceeded() || depth >= c.Depth+3 || len(res.Viol) > 0 {
				break
			}
		}
		var next []node
		execs0 := res.Execs
		for ni, n := range frontier {
			if inBonus && (bonus.Exceeded() || deadline.Exceeded() || (c.MaxStates > 0 && len(seen) > c.MaxStates)) {
				res.States = len(seen)
				res.BonusNote = fmt.Sprintf("bonus depth %d started after the prescribed depth %d, stopped by its CPU allowance after %d of %d frontier states (%d executions; not counted as completed)", depth+1, c.Depth, ni, len(frontier), res.Execs-execs0)
				return res
			}
			if deadline.Exceeded() || (c.MaxStates > 0 && len(seen) > c.MaxStates) {
				res.Complete = false
				res.DepthDone = depth
				_ = ni
				res.States = len(seen)
				return res
			}
			w := c.replayHist(n.hist)
			res.Execs++
			evs := c.events(w)
			// state-level checks on the state itself (C15 needs the S transition, done below)
			listed := listPipelines(w)
			for ei, ev := range evs {
				var w2 *World
				if ei == 0 {
					w2 = w
				} else {
					w2 = c.replayHist(n.hist)
					res.Execs++
				}
				pre := w2.Log[len(w2.Log)-1].Dump
				preLen := len(w2.Log)
				if !c.step(w2, ev) {
					// event not applicable or no quiescence
					if len(w2.S.Enabled()) > 0 {
						addViol([]Violation{{Property: "*", Rule: "livelock", Norm: "no-quiescence", Msg: "threads still enabled after 20000 steps"}}, append(n.hist, ev), w2)
					}
					w2.Close()
					continue
				}
				res.Transitions++
				hist := append(append([]XEvent(nil), n.hist...), ev)
				post := w2.Log[len(w2.Log)-1].Dump
				vs := c.check(w2, pre, post, ev, preLen, listed)
				if w2.S.Panic != nil {
					vs = append(vs, panicViolation(w2.S.Panic, w2.S.PanicStack))
				}
				if w2.S.LockHazard != "" {
					vs = append(vs, Violation{Property: "*", Rule: "deadlock", Msg: w2.S.LockHazard, Norm: "recursive-read-lock"})
				}
				key := w2.StateKey(c.Symmetry)
				if c.NoDedup {
					key = histString(hist)
				}
				if len(vs) > 0 {
					addViol(vs, hist, w2)
					w2.Close()
					continue // do not expand beyond a violating transition: keeps counterexamples minimal
				}
				if rep, dup := seen[key]; !dup {
					seen[key] = hist
					res.Outcomes[post.Short()] = true
					if len(res.Samples) < 3 && depth >= 2 {
						res.Samples = append(res.Samples, c.Name+": "+histString(hist)+" => "+post.Short())
					}
					if len(hist) > res.MaxDepth {
						res.MaxDepth = len(hist)
					}
					if c.Props["C15"] {
						addViol(monC15API(w2, post), hist, w2)
					}
					var rc *restartCtx
					if c.Restart {
						rc = restartPhase1(w2)
					}
					if c.Drain {
						if !w2.Drain(200) {
							addViol([]Violation{{Property: "C03", Rule: "drain", Norm: "drain-does-not-terminate", Msg: "completing all tasks and firing all timers does not reach a final quiescent state"}}, hist, w2)
						} else {
							w2.log(Event{Kind: EvQuiescent, Dump: w2.dump(), Detail: "drain"})
							addViol(c.checkDrained(w2), hist, w2)
						}
					}
					next = append(next, node{hist})
					if rc != nil {
						w2.Close()
						addViol(restartPhase2(rc), hist, w2)
						continue
					}
				} else if auditSlice > 0 && int(hashStr(key)%uint64(auditSlice)) == 0 && depth+1 < c.Depth {
					// merge audit: the representative and the newcomer must have the same successors
					res.Audits++
					if msg := c.audit(rep, hist); msg != "" {
						res.AuditFail = append(res.AuditFail, msg)
					}
				}
				w2.Close()
			}
			if len(evs) == 0 {
				w.Close()
			}
		}
		frontier = next
		res.DepthDone = depth + 1
		if inBonus {
			res.BonusNote = fmt.Sprintf("bonus depth %d completed beyond the prescribed depth %d", depth+1, c.Depth)
		}
	}
	res.States = len(seen)
	return res
}

func hashStr(s string) uint64 {
	var h uint64 = 14695981039346656037
	for i := 0; i < len(s); i++ {
		h ^= uint64(s[i])
		h *= 1099511628211
	}
	return h
}

// audit compares the one-step successor keys of two histories that were merged
func (c *X2Config) audit(a, b []XEvent) string {
	succ := func(h []XEvent) map[string]string {
		w := c.replayHist(h)
		evs := c.events(w)
		w.Close()
		res := map[string]string{}
		for _, ev := range evs {
			w2 := c.replayHist(h)
			c.step(w2, ev)
			// event names refer to absolute job numbers; compare by position in the alphabet instead
			res[ev.Kind+fmt.Sprint(len(res))] = w2.StateKey(c.Symmetry)
			w2.Close()
		}
		return res
	}
	sa, sb := succ(a), succ(b)
	if len(sa) != len(sb) {
		return fmt.Sprintf("ABSTRACTION-MISMATCH %s: [%s] and [%s] have %d vs %d successors", c.Name, histString(a), histString(b), len(sa), len(sb))
	}
	for k, v := range sa {
		if sb[k] != v {
			return fmt.Sprintf("ABSTRACTION-MISMATCH %s: [%s] and [%s] differ after %s:\n %s\n %s", c.Name, histString(a), histString(b), k, v, sb[k])
		}
	}
	return ""
}

func listPipelines(w *World) []prunner.PipelineInfo {
	var res []prunner.PipelineInfo
	if mx, ok := prunner.VerifMx(w.R).(interface{ Held() (bool, int) }); ok {
		if wr, _ := mx.Held(); wr {
			return nil // a parked thread holds the runner lock: reported as a deadlock elsewhere
		}
	}
	w.S.External(func() { res = w.R.ListPipelines() })
	return res
}

// check runs the monitors selected by the configuration on one transition
func (c *X2Config) check(w *World, pre, post *Dump, ev XEvent, preLen int, listed []prunner.PipelineInfo) []Violation {
	f := buildFacts(w.Log, post)
	var vs []Violation
	if c.Props["C01"] {
		vs = append(vs, monC01(f)...)
	}
	if c.Props["C02"] {
		vs = append(vs, monC02(f)...)
	}
	if c.Props["C04"] {
		vs = append(vs, monC04(f)...)
	}
	if c.Props["C08"] {
		v8 := monC08(f, c.Cancel)
		vs = append(vs, v8...)
		if c.Props["C16"] && f.HasReload {
			// monC08 judges a job by the definition it was accepted under; in a history with a reload a breach means the
			// failure handling of a job followed another definition than its own
			for _, v := range v8 {
				vs = append(vs, Violation{Property: "C16", Rule: "snapshot-failure-handling", Norm: "failure-handling-not-from-accept-time-definition:" + v.Norm,
					Msg: "in a history with a reload, a job's failure handling does not follow the definition it was accepted under: " + v.Msg})
			}
		}
	}
	if c.Props["C05"] {
		vs = append(vs, monC05(f, pre, post, ev, w.Log[preLen:])...)
	}
	if c.Props["C06"] {
		vs = append(vs, monC06(f)...)
	}
	if c.Props["C07"] {
		vs = append(vs, monC07(f, w.S.Elapsed())...)
	}
	if c.Props["C03"] || c.Props["C07"] {
		vs = append(vs, monPrompt(f, post, w.S.Elapsed(), c.Props["C03"], c.Props["C07"])...)
	}
	if c.Props["C15"] {
		vs = append(vs, monC15(f, pre, post, ev, w.Log[preLen:], listed)...)
	}
	if c.Props["C11persist"] {
		vs = append(vs, monPersistInterval(w, f, w.S.Elapsed())...)
	}
	if c.Props["C11store"] && ev.Kind == "Save" && w.Store != nil && post != nil {
		// after a save that returned, the store holds exactly the jobs the runner reports (the clause Shutdown's final save
		// relies on) - also when the save itself removed the last jobs
		inStore := map[int]bool{}
		if n := len(w.Store.saves); n > 0 {
			for _, pj := range w.Store.saves[n-1].Jobs {
				inStore[jobIndex(pj.ID)] = true
			}
		}
		for i := range post.Jobs {
			if !inStore[post.Jobs[i].Idx] {
				vs = append(vs, Violation{Property: "C11", Rule: "store-after-save", Norm: "reported-job-not-in-store", Msg: fmt.Sprintf("after a save, job %d is reported but the store does not hold it: %s", post.Jobs[i].Idx, post.Short())})
			}
			delete(inStore, post.Jobs[i].Idx)
		}
		for idx := range inStore {
			vs = append(vs, Violation{Property: "C11", Rule: "store-after-save", Norm: "store-holds-job-no-longer-reported", Msg: fmt.Sprintf("after a save, the store still holds job %d, which the runner no longer reports: %s", idx, post.Short())})
		}
	}
	if c.Props["C16"] {
		vs = append(vs, monC16(w, f)...)
	}
	if c.Props["C15ret"] && ev.Kind == "Save" && pre != nil && post != nil {
		for i := range pre.Jobs {
			j := &pre.Jobs[i]
			if _, defined := pre.Defs.Pipelines[j.Pipeline]; !defined {
				continue
			}
			if !j.Terminal() && post.Job(j.Idx) == nil {
				vs = append(vs, Violation{Property: "C15", Rule: "reported-until-retention", Norm: "unfinished-job-no-longer-reported",
					Msg: fmt.Sprintf("job %d (%s) was accepted and is neither finished nor expired, but after a save it is no longer reported: %s", j.Idx, jobStr(j), post.Short())})
			}
		}
	}
	if c.Props["C12"] {
		var after map[string]string
		if c.LogDir {
			after = logDirState(w.Opts.LogDirPath)
		}
		vs = append(vs, monC12(w, pre, post, ev, w.logsBefore, after, w.S.Elapsed())...)
	}
	return vs
}

func (c *X2Config) checkDrained(w *World) []Violation {
	final := w.dump()
	f := buildFacts(w.Log, final)
	var vs []Violation
	if c.Props["C03"] {
		vs = append(vs, monStranded(f, final, "C03")...)
	}
	if c.Props["C16"] {
		vs = append(vs, monStranded(f, final, "C16")...)
		vs = append(vs, monC16(w, f)...)
	}
	if c.Props["C07"] {
		vs = append(vs, monC07Drained(f, final)...)
		vs = append(vs, monC07(f, w.S.Elapsed())...)
	}
	if c.Props["C01"] {
		vs = append(vs, monC01(f)...)
	}
	if c.Props["C02"] {
		vs = append(vs, monC02(f)...)
	}
	if c.Props["C04"] {
		vs = append(vs, monC04(f)...)
	}
	if c.Props["C06"] {
		vs = append(vs, monC06(f)...)
	}
	if c.Props["C08"] {
		v8 := monC08(f, c.Cancel)
		vs = append(vs, v8...)
		if c.Props["C16"] && f.HasReload {
			for _, v := range v8 {
				vs = append(vs, Violation{Property: "C16", Rule: "snapshot-failure-handling", Norm: "failure-handling-not-from-accept-time-definition:" + v.Norm,
					Msg: "in a history with a reload, a job's failure handling does not follow the definition it was accepted under: " + v.Msg})
			}
		}
	}
	return vs
}

func runX2Unit(u Unit, c *X2Config) UnitResult {
	res := UnitResult{Name: u.Name}
	// determinism gate: the same history twice gives identical logs
	h := []XEvent{{Kind: "S", P: "p"}, {Kind: "S", P: "p"}}
	wa := c.replayHist(h)
	la := logStrings(wa)
	wa.Close()
	wb := c.replayHist(h)
	lb := logStrings(wb)
	wb.Close()
	res.Replays = 2
	if strings.Join(la, "\n") != strings.Join(lb, "\n") {
		panic(InfraError{"determinism gate failed for " + c.Name})
	}
	audit := 16
	if u.Tier == "thorough" {
		audit = 1
	}
	var bonus Budget
	if a := bonusAllowance(u.Tier); a > 0 {
		bonus = newBudget(a)
	}
	r := c.RunBonus(newBudget(unitDeadline(u.Tier)), bonus, audit)
	res.Prescribed = c.Depth
	if r.BonusNote != "" {
		res.Notes = append(res.Notes, r.BonusNote)
	}
	res.States = r.States
	res.Transitions = r.Transitions
	res.Execs = r.Execs
	res.MaxDepth = r.MaxDepth
	res.Outcomes = len(r.Outcomes)
	res.Exhaustive = r.Complete
	res.Bound = r.DepthDone
	res.Audits = r.Audits
	res.Samples = r.Samples
	if !r.Complete {
		res.Caps = append(res.Caps, fmt.Sprintf("deadline or state cap hit while expanding depth %d (levels below fully expanded)", r.DepthDone))
	}
	if len(r.AuditFail) > 0 {
		sort.Strings(r.AuditFail)
		panic(InfraError{r.AuditFail[0]})
	}
	res.Viol = r.Viol
	return res
}
