package main

import (
	"fmt"
	"strings"
	"time"

	"github.com/Flowpack/prunner/store"
)

func persistedString(j store.PersistedJob) string {
	var sb strings.Builder
	fmt.Fprintf(&sb, "%d c=%v x=%v s=%v e=%v [", jobIndex(j.ID), j.Completed, j.Canceled, j.Start != nil, j.End != nil)
	for _, t := range j.Tasks {
		errs := ""
		if t.Error != nil {
			errs = *t.Error
		}
		fmt.Fprintf(&sb, "%s=%s,%v,%d,%q,%v,%v;", t.Name, t.Status, t.Errored, t.ExitCode, errs, t.Start != nil, t.End != nil)
	}
	sb.WriteString("]")
	return sb.String()
}

func dumpJobPersistString(j *DJob) string {
	var sb strings.Builder
	fmt.Fprintf(&sb, "%d c=%v x=%v s=%v e=%v [", j.Idx, j.Completed, j.Canceled, j.Start != nilDur, j.End != nilDur)
	for _, t := range j.Tasks {
		fmt.Fprintf(&sb, "%s=%s,%v,%d,%q,%v,%v;", t.Name, t.Status, t.Errored, t.ExitCode, t.Error, t.HasStart, t.HasEnd)
	}
	sb.WriteString("]")
	return sb.String()
}

// storeMatches compares a saved snapshot with a dump: same job set, same reported fields
func storeMatches(snap *store.PersistedData, d *Dump) string {
	if snap == nil {
		if len(d.Jobs) == 0 {
			return ""
		}
		return "nothing was saved"
	}
	got := map[int]string{}
	for _, j := range snap.Jobs {
		got[jobIndex(j.ID)] = persistedString(j)
	}
	for i := range d.Jobs {
		want := dumpJobPersistString(&d.Jobs[i])
		g, ok := got[d.Jobs[i].Idx]
		if !ok {
			return fmt.Sprintf("job %d is missing from the store", d.Jobs[i].Idx)
		}
		if g != want {
			return fmt.Sprintf("job %d: store has %s, the runner reports %s", d.Jobs[i].Idx, g, want)
		}
		delete(got, d.Jobs[i].Idx)
	}
	for idx := range got {
		return fmt.Sprintf("the store has job %d which the runner does not report", idx)
	}
	return ""
}

func monC11(w *World, f *Facts, forced bool, racingCancel int) []Violation {
	var vs []Violation
	final := f.Final
	// locate shutdown call / first critical section / return
	call, ret := -1, -1
	var thread string
	for i, e := range f.Log {
		if e.Kind == EvApiCall && strings.HasPrefix(e.Detail, "Shutdown") && call < 0 {
			call, thread = i, e.Thread
		}
		if e.Kind == EvShutdownRet && ret < 0 {
			ret = i
		}
	}
	if call < 0 {
		return nil
	}
	if ret < 0 {
		vs = append(vs, Violation{Property: "C11", Rule: "returns", Norm: "shutdown-never-returns", Msg: "Shutdown was called but never returned although every task finished and every timer fired"})
		return vs
	}
	rd := f.Log[ret].Dump
	// state when shutdown began: dump at the end of its first critical section
	var atStart *Dump
	for k := call; k < ret; k++ {
		if f.Log[k].Kind == EvUnlock && f.Log[k].Thread == thread {
			atStart = f.dumpBefore(k)
			break
		}
	}
	// 1. at return: nothing running or waiting, no task executing
	for i := range rd.Jobs {
		j := &rd.Jobs[i]
		if !j.Terminal() {
			vs = append(vs, Violation{Property: "C11", Rule: "terminal-at-return", Norm: "job-not-terminal-at-shutdown-return",
				Msg: fmt.Sprintf("Shutdown returned (event %d) while job %d is %s", ret, j.Idx, jobStr(j))})
		}
	}
	for _, idx := range f.JobOrder {
		for _, r := range f.Jobs[idx].Runs {
			if r.Enter < ret && (r.Exit < 0 || r.Exit > ret) {
				vs = append(vs, Violation{Property: "C11", Rule: "no-task-at-return", Norm: "task-executing-at-shutdown-return",
					Msg: fmt.Sprintf("Shutdown returned (event %d) while task %s of job %d is executing", ret, r.Task, idx)})
			}
			if r.Enter > ret {
				vs = append(vs, Violation{Property: "C11", Rule: "no-task-at-return", Norm: "task-begins-after-shutdown-return",
					Msg: fmt.Sprintf("task %s of job %d begins at event %d, after Shutdown returned (event %d)", r.Task, idx, r.Enter, ret)})
			}
		}
	}
	// 2. the store at return equals the reported state at return, and nothing changes afterwards
	if w.Store != nil {
		var last *store.PersistedData
		nsaves := 0
		for k := 0; k <= ret; k++ {
			if f.Log[k].Kind == EvSave {
				nsaves++
			}
		}
		if nsaves > 0 && nsaves <= len(w.Store.saves) {
			last = w.Store.saves[nsaves-1]
		}
		if msg := storeMatches(last, rd); msg != "" {
			vs = append(vs, Violation{Property: "C11", Rule: "store-at-return", Norm: "store-differs-from-state-at-shutdown-return",
				Msg: "when Shutdown returned the store did not hold the reported state: " + msg})
		}
		if len(w.Store.saves) > 0 && final != nil {
			if msg := storeMatches(w.Store.saves[len(w.Store.saves)-1], final); msg != "" {
				vs = append(vs, Violation{Property: "C11", Rule: "store-final", Norm: "store-differs-from-final-state",
					Msg: "at the end the store does not hold the final reported state: " + msg})
			}
		}
	}
	if final != nil && dumpJobsString(rd) != dumpJobsString(final) {
		vs = append(vs, Violation{Property: "C11", Rule: "stable-after-return", Norm: "state-changes-after-shutdown-return",
			Msg: fmt.Sprintf("job state changed after Shutdown returned:\n%s->\n%s", dumpJobsString(rd), dumpJobsString(final))})
	}
	// 3. no schedule request is accepted after the return
	for i := ret + 1; i < len(f.Log); i++ {
		e := f.Log[i]
		if e.Kind == EvApiRet && (strings.HasPrefix(e.Detail, "S(") || strings.HasPrefix(e.Detail, "Sbad(")) {
			// only requests issued after the return
			issued := -1
			for k := i - 1; k >= 0; k-- {
				if f.Log[k].Kind == EvApiCall && f.Log[k].Thread == e.Thread {
					issued = k
					break
				}
			}
			if issued > ret && e.Err != "shuttingdown" {
				vs = append(vs, Violation{Property: "C11", Rule: "gate", Norm: "schedule-accepted-after-shutdown",
					Msg: fmt.Sprintf("a schedule request issued after Shutdown returned ended with %q", orAccepted(e.Err))})
			}
		}
	}
	// 4. graceful / forced semantics for the jobs that existed when shutdown began
	if atStart != nil {
		for i := range atStart.Jobs {
			sj := &atStart.Jobs[i]
			j := f.Jobs[sj.Idx]
			fj := final.Job(sj.Idx)
			if fj == nil {
				continue
			}
			if sj.Waiting() {
				if !fj.Canceled || len(j.Runs) > 0 {
					vs = append(vs, Violation{Property: "C11", Rule: "waiting-canceled", Norm: "waiting-job-not-canceled-by-shutdown",
						Msg: fmt.Sprintf("job %d was waiting when shutdown began; it must end canceled without running a task, but ends %s with %d task executions", sj.Idx, jobStr(fj), len(j.Runs))})
				}
			}
			if sj.Running() && !forced && sj.Idx != racingCancel && len(j.CancelApi) == 0 {
				if j.CancelCalledEv >= 0 {
					vs = append(vs, Violation{Property: "C11", Rule: "graceful-no-cancel", Norm: "graceful-shutdown-cancels-running-job",
						Msg: fmt.Sprintf("graceful shutdown: the task runner of running job %d was told to stop (event %d)", sj.Idx, j.CancelCalledEv)})
				}
				if !plainSuccess(fj) {
					vs = append(vs, Violation{Property: "C11", Rule: "graceful-completes", Norm: "graceful-shutdown-does-not-complete-running-job",
						Msg: fmt.Sprintf("graceful shutdown: job %d was running when shutdown began and all its tasks succeed, but it ends %s", sj.Idx, jobStr(fj))})
				}
				for _, t := range fj.Tasks {
					n := 0
					for _, r := range j.Runs {
						if r.Task == t.Name && r.ExitKind == "ok" {
							n++
						}
					}
					if n != 1 {
						vs = append(vs, Violation{Property: "C11", Rule: "graceful-completes", Norm: "graceful-shutdown-skips-task",
							Msg: fmt.Sprintf("graceful shutdown: task %s of job %d ran to its natural end %d times", t.Name, sj.Idx, n)})
					}
				}
			}
		}
	}
	// 5. forced: every job that is still running when the forced branch takes the lock is told to stop and ends canceled
	if forced && f.Log[ret].Err == "ctxcanceled" {
		nUnlock := 0
		for k := call; k < ret; k++ {
			if f.Log[k].Kind == EvUnlock && f.Log[k].Thread == thread {
				nUnlock++
				if nUnlock == 2 {
					if d := f.dumpBefore(k); d != nil {
						for i := range d.Jobs {
							sj := &d.Jobs[i]
							if !sj.Running() {
								continue
							}
							j := f.Jobs[sj.Idx]
							fj := final.Job(sj.Idx)
							if j.CancelCalledEv < 0 {
								vs = append(vs, Violation{Property: "C11", Rule: "forced-cancels-running", Norm: "forced-shutdown-does-not-stop-running-job",
									Msg: fmt.Sprintf("forced shutdown: job %d was running when the deadline was noticed but its task runner was never told to stop", sj.Idx)})
							}
							if fj != nil && !fj.Canceled {
								vs = append(vs, Violation{Property: "C11", Rule: "forced-cancels-running", Norm: "forced-shutdown-running-job-not-canceled",
									Msg: fmt.Sprintf("forced shutdown: job %d was running when the deadline was noticed but ends %s", sj.Idx, jobStr(fj))})
							}
						}
					}
				}
			}
		}
	}
	return dedupV(vs)
}

// monPersist: every accepted job reaches the store within the persist interval without an explicit save
// monPersistInterval is the persist-interval clause at a quiescent state of a history (X2): every job whose request
// was acknowledged more than a persist interval ago is contained in a save that happened since - whatever else
// happened or did not happen in the meantime.
func monPersistInterval(w *World, f *Facts, now time.Duration) []Violation {
	var vs []Violation
	if w.Store == nil {
		return nil
	}
	type sv struct {
		vt   time.Duration
		snap *store.PersistedData
	}
	var saves []sv
	saveIdx := 0
	for _, e := range f.Log {
		if e.Kind == EvSave {
			if saveIdx < len(w.Store.saves) {
				saves = append(saves, sv{e.VT, w.Store.saves[saveIdx]})
			}
			saveIdx++
		}
	}
	const interval = 3*time.Second + time.Millisecond
	for _, idx := range f.JobOrder {
		j := f.Jobs[idx]
		if j.AcceptEv < 0 {
			continue
		}
		vt := f.Log[j.AcceptEv].VT
		if now < vt+interval {
			continue // the interval has not passed yet
		}
		ok := false
		for _, s := range saves {
			if s.vt >= vt && s.vt <= vt+interval {
				for _, pj := range s.snap.Jobs {
					if jobIndex(pj.ID) == idx {
						ok = true
					}
				}
			}
		}
		if !ok {
			vs = append(vs, Violation{Property: "C11", Rule: "persist-interval", Norm: "accepted-job-not-persisted-in-interval",
				Msg: fmt.Sprintf("job %d was accepted at %v, it is now %v, and no save within the 3s after the acknowledgement contains it", idx, vt, now)})
		}
	}
	return vs
}

func monPersist(w *World, f *Facts) []Violation {
	var vs []Violation
	if w.Store == nil {
		return nil
	}
	saveIdx := 0
	type sv struct {
		vt   time.Duration
		snap *store.PersistedData
	}
	var saves []sv
	for _, e := range f.Log {
		if e.Kind == EvSave {
			if saveIdx < len(w.Store.saves) {
				saves = append(saves, sv{e.VT, w.Store.saves[saveIdx]})
			}
			saveIdx++
		}
	}
	for _, idx := range f.JobOrder {
		j := f.Jobs[idx]
		if j.AcceptEv < 0 {
			continue
		}
		vt := f.Log[j.AcceptEv].VT
		ok := false
		for _, s := range saves {
			if s.vt >= vt && s.vt <= vt+3*time.Second+time.Millisecond {
				for _, pj := range s.snap.Jobs {
					if jobIndex(pj.ID) == idx {
						ok = true
					}
				}
			}
		}
		if !ok {
			vs = append(vs, Violation{Property: "C11", Rule: "persist-interval", Norm: "accepted-job-not-persisted-in-interval",
				Msg: fmt.Sprintf("job %d was accepted at %v but no save within the following 3s contains it (saves at %v)", idx, vt, func() []time.Duration {
					var r []time.Duration
					for _, s := range saves {
						r = append(r, s.vt)
					}
					return r
				}())})
		}
	}
	if len(saves) > 0 && f.Final != nil {
		if msg := storeMatches(saves[len(saves)-1].snap, f.Final); msg != "" {
			vs = append(vs, Violation{Property: "C11", Rule: "persist-final", Norm: "final-state-not-persisted",
				Msg: "after the last change and a full persist interval the store does not hold the reported state: " + msg})
		}
	}
	return vs
}

func c11Scenarios(tier string) []*Scenario {
	type st struct {
		n      string
		cfg    PipeCfg
		prefix []XEvent
		acc    int
		run    int // index of a running job (for a racing cancel), 0 = none
		wait   int // index of a waiting job
	}
	chain := PipeCfg{Conc: 1, QL: -1, Graph: graphChain}
	chain2 := PipeCfg{Conc: 2, QL: -1, Graph: graphChain}
	delayed := PipeCfg{Conc: 1, QL: -1, Graph: graphOne, Delay: dly}
	S := XEvent{Kind: "S", P: "p"}
	states := []st{
		{"idle", chain, nil, 0, 0, 0},
		{"running-a", chain, []XEvent{S}, 1, 1, 0},
		{"running-b", chain, []XEvent{S, {Kind: "Dok", Job: 1, Task: "a"}}, 1, 1, 0},
		{"running+2waiting", chain, []XEvent{S, S, S}, 3, 1, 2},
		{"2running+2waiting", chain2, []XEvent{S, S, S, S}, 4, 2, 3},
		{"delayed", delayed, []XEvent{S}, 1, 0, 1},
		{"delayed-due-slot-busy", delayed, []XEvent{S, {Kind: "Adv", D: dly}, S, {Kind: "Adv", D: dly}}, 2, 1, 2},
		{"all-finished", chain, []XEvent{S, {Kind: "Dok", Job: 1, Task: "a"}, {Kind: "Dok", Job: 1, Task: "b"}}, 1, 0, 0},
		{"failed", chain, []XEvent{S, {Kind: "Dfail", Job: 1, Task: "a"}}, 1, 0, 0},
	}
	var scs []*Scenario
	for _, s := range states {
		for _, forced := range []bool{false, true} {
			racers := []string{"none", "schedule", "save"}
			if s.run > 0 {
				racers = append(racers, "cancel-running")
			}
			if s.wait > 0 {
				racers = append(racers, "cancel-waiting")
			}
			for _, racer := range racers {
				s, forced, racer := s, forced, racer
				mode := "graceful"
				if forced {
					mode = "forced"
				}
				b := 1
				if s.n == "2running+2waiting" {
					b = 0 // four tasks in flight: every completion order and every quiescent ctx placement, no preemptions
				}
				if tier == "thorough" {
					b++
				}
				racingCancel := 0
				scs = append(scs, &Scenario{
					Name:   fmt.Sprintf("shutdown/%s/%s/%s", s.n, mode, racer),
					Desc:   "Shutdown from this state, with the named concurrent client; forced: the context is cancelled at every possible point",
					Opts:   func() WorldOpts { return WorldOpts{Defs: defsOf(s.cfg), WithStore: true} },
					Prefix: s.prefix,
					Setup: func(w *World) {
						w.Accepted = s.acc
						w.SpawnDriver(Op{Kind: "Shutdown", Forced: forced}, Op{Kind: "S", Pipeline: "p"})
						switch racer {
						case "schedule":
							w.SpawnDriver(Op{Kind: "S", Pipeline: "p"})
						case "save":
							w.SpawnDriver(Op{Kind: "Save"})
						case "cancel-running":
							w.SpawnDriver(Op{Kind: "C", Job: s.run})
						case "cancel-waiting":
							w.SpawnDriver(Op{Kind: "C", Job: s.wait})
						}
					},
					Check: func(w *World, x *Exec) []Violation {
						f := buildFacts(w.Log, w.dump())
						rc := racingCancel
						if racer == "cancel-running" {
							rc = s.run
						}
						vs := monC11(w, f, forced, rc)
						vs = append(vs, monC04(f)...)
						vs = append(vs, monC01(f)...)
						vs = append(vs, monC02(f)...)
						return vs
					},
					Forced: forced, Bound: intp(b),
				})
			}
		}
	}
	// a forced shutdown while the running job's pipeline is no longer defined (dropped by a reload): it is a running job
	// like any other. Judged also at every point at which nothing can run: once the deadline has passed and Shutdown has
	// not returned, every task still executing belongs to a runner that was told to stop.
	forcedQuiescent := func(w *World) []Violation {
		if !w.forcedDone {
			return nil
		}
		for _, e := range w.Log {
			if e.Kind == EvShutdownRet {
				return nil
			}
		}
		started := false
		for _, e := range w.Log {
			if e.Kind == EvApiCall && strings.HasPrefix(e.Detail, "Shutdown") {
				started = true
			}
		}
		if !started {
			return nil
		}
		var vs []Violation
		for _, rs := range w.ParkedRuns() {
			m := w.Mocks[rs.inst-1]
			if !m.cancelled {
				vs = append(vs, Violation{Property: "C11", Rule: "forced-cancels-running", Norm: "forced-shutdown-waits-for-running-job",
					Msg: fmt.Sprintf("forced shutdown: the deadline has passed, Shutdown has not returned and nothing can run, but task %s of job %d still executes and its runner was never told to stop", rs.task, m.job)})
			}
		}
		return vs
	}
	for _, sc := range scs {
		if sc.Forced && sc.QuiescentCheck == nil {
			sc.QuiescentCheck = forcedQuiescent
		}
	}
	{
		with := mkDefs(map[string]PipeCfg{"p": chain, "z": {Conc: 1, QL: -1, Graph: graphOne}})
		without := mkDefs(map[string]PipeCfg{"z": {Conc: 1, QL: -1, Graph: graphOne}})
		for _, forced := range []bool{false, true} {
			forced := forced
			mode := "graceful"
			if forced {
				mode = "forced"
			}
			sc := &Scenario{
				Name:   "shutdown/running-pipeline-dropped-by-reload/" + mode + "/none",
				Desc:   "job 1 runs; a reload dropped its pipeline; Shutdown",
				Opts:   func() WorldOpts { return WorldOpts{Defs: []*definitionPipelinesDef{with, without}, WithStore: true} },
				Prefix: []XEvent{S, {Kind: "R", Def: 1}},
				Setup: func(w *World) {
					w.Accepted = 1
					w.SpawnDriver(Op{Kind: "Shutdown", Forced: forced})
				},
				Check: func(w *World, x *Exec) []Violation {
					f := buildFacts(w.Log, w.dump())
					vs := monC11(w, f, forced, 0)
					vs = append(vs, monC04(f)...)
					return vs
				},
				Forced: forced, Bound: intp(1),
			}
			if forced {
				sc.QuiescentCheck = forcedQuiescent
			}
			scs = append(scs, sc)
			if forced {
				// the same without any clock step: the persist loop (which saves at once and then sleeps 3 s) cannot save
				// after the reload, so the job is still known to the runner when the shutdown begins. (With clock steps the
				// save purges the running job of the undefined pipeline first - the recorded known finding - and the forced
				// shutdown then waits for the task's natural end.)
				ns := *sc
				ns.Name = "shutdown/pipeline-dropped-no-save/forced/none"
				ns.NoTick = true
				scs = append(scs, &ns)
			}
		}
	}
	// the persist loop
	for _, g := range []struct {
		n string
		c PipeCfg
	}{{"chain", chain}, {"conc2", chain2}} {
		g := g
		scs = append(scs, &Scenario{
			Name: "persist-loop/" + g.n,
			Desc: "two schedule requests and their tasks, no explicit save: every accepted change must reach the store through the 3s persist loop",
			Opts: func() WorldOpts { return WorldOpts{Defs: defsOf(g.c), WithStore: true} },
			Setup: func(w *World) {
				w.SpawnDriver(Op{Kind: "S", Pipeline: "p"})
				w.SpawnDriver(Op{Kind: "S", Pipeline: "p"})
			},
			Check: func(w *World, x *Exec) []Violation {
				f := buildFacts(w.Log, w.dump())
				return monPersist(w, f)
			},
			Bound: intp(func() int {
				if tier == "thorough" {
					return 2
				}
				if g.n == "conc2" {
					return 0
				}
				return 1
			}()),
		})
	}
	return scs
}
