package main

import (
	"fmt"
	"os"
	"reflect"
	"sort"
	"strconv"
	"strings"
	"syscall"
	"time"

	"github.com/Flowpack/prunner/zverif/vsched"
)

// x1Scenarios returns the X1 scenarios of a property (deterministic order)
func x1Scenarios(prop, tier string) []*Scenario {
	switch prop {
	case "C04":
		return c04Scenarios(tier)
	case "C02":
		return append(c02Scenarios(tier), prefixed("cancel/", c04Scenarios(tier))...)
	case "C08":
		return append(c08Scenarios(tier), prefixed("cancel/", c04Scenarios(tier))...)
	case "C13":
		return c13Scenarios(tier)
	case "C11":
		return c11Scenarios(tier)
	case "C10":
		return c10Scenarios(tier)
	case "C06":
		return c06Scenarios(tier)
	case "C01", "C03", "C07", "C16":
		return raceScenarios(prop, tier)
	case "C05":
		return c05Scenarios(tier)
	case "C15":
		return c15Scenarios(tier)
	}
	return nil
}

func x1Bound(prop, tier string) int {
	if b := os.Getenv("VERIF_BOUND"); b != "" {
		n, _ := strconv.Atoi(b)
		return n
	}
	if prop == "C13" {
		// the race build executes ~10x slower
		if tier == "thorough" {
			return 2
		}
		return 1
	}
	if tier == "thorough" {
		return 3
	}
	return 2
}

const chunkCount = 48

// chunkOf spreads scenarios over chunks by name (neighbouring indices share parameters, so a stride would
// put all the heavy ones into the same chunk)
func chunkOf(name string) int { return int(hashStr(name) % chunkCount) }

func unitsFor(prop, tier string) []Unit {
	var us []Unit
	scs := x1Scenarios(prop, tier)
	if len(scs) > 2*chunkCount {
		for i := 0; i < chunkCount; i++ {
			us = append(us, Unit{Prop: prop, Tier: tier, Kind: "x1chunk", Index: i, Name: fmt.Sprintf("x1chunk/%d-of-%d(%d scenarios)", i, chunkCount, len(scs))})
		}
	} else {
		for i, sc := range scs {
			us = append(us, Unit{Prop: prop, Tier: tier, Kind: "x1", Index: i, Name: "x1/" + sc.Name})
		}
	}
	if prop == "C18" || prop == "C19" || prop == "C20" {
		n := procxParts(prop, tier)
		for i := 0; i < n; i++ {
			us = append(us, Unit{Prop: prop, Tier: tier, Kind: "procx", Index: i, Name: fmt.Sprintf("procx/%s/part-%d-of-%d", prop, i, n)})
		}
	}
	if prop == "C02" || prop == "C08" {
		us = append(us, Unit{Prop: prop, Tier: tier, Kind: "procx", Index: 0, Name: "realrunner/failure-kinds (real processes)"})
	}
	if prop == "C04" || prop == "C08" {
		us = append(us, Unit{Prop: prop, Tier: tier, Kind: "conformance", Index: 0, Name: "conformance/mock-runner-vs-real-runner (12 scenarios)"})
	}
	if prop == "C02" || prop == "C08" {
		// the same graph sweep in the build where every stage-status read / update is a scheduling point
		for i := 0; i < chunkCount; i++ {
			us = append(us, Unit{Prop: prop, Tier: tier, Kind: "x1chunk", Index: i, Bin: "sp", Name: fmt.Sprintf("statuspoints/x1chunk/%d-of-%d", i, chunkCount)})
		}
	}
	switch prop {
	case "C01":
		us = append(us, Unit{Prop: prop, Tier: tier, Kind: "appx", Index: 0, Name: "appx/limit-reloads (real binary, SIGUSR1)"})
	case "C16":
		us = append(us, Unit{Prop: prop, Tier: tier, Kind: "appx", Index: 0, Name: "appx/reload-histories (real binary, SIGUSR1)"})
		us = append(us, Unit{Prop: prop, Tier: tier, Kind: "appx", Index: 1, Name: "appx/env-reloads (real binary, SIGUSR1)"})
	case "C17":
		for i := 0; i < 8; i++ {
			us = append(us, Unit{Prop: prop, Tier: tier, Kind: "appx", Index: i, Name: fmt.Sprintf("appx/field-edits-%d-of-8 (real binary, SIGUSR1)", i)})
		}
		us = append(us, Unit{Prop: prop, Tier: tier, Kind: "appx", Index: 0, Name: "appx/reload-histories (real binary, SIGUSR1)"})
	case "C11":
		us = append(us, Unit{Prop: prop, Tier: tier, Kind: "appx", Index: 0, Name: "appx/signals (real binary, SIGINT / SIGTERM)"})
	case "C14":
		us = append(us, Unit{Prop: prop, Tier: tier, Kind: "appx", Index: 0, Name: "appx/http-surface (real binary over a socket)"})
		us = append(us, Unit{Prop: prop, Tier: tier, Kind: "procx", Index: 0, Bin: "race", Name: "procx/C14/concurrent-requests (valid and invalid tokens at once, race build)"})
	case "C19":
		us = append(us, Unit{Prop: prop, Tier: tier, Kind: "procx", Index: 0, Bin: "race", Name: "procx/C19/concurrent-writers (12 jobs at once on one file store, race build)"})
	case "C18":
		us = append(us, Unit{Prop: prop, Tier: tier, Kind: "procx", Index: 0, Bin: "race", Name: "procx/C18/race-build (same grammar under the race detector)"})
		us = append(us, Unit{Prop: prop, Tier: tier, Kind: "appx", Index: 1, Name: "appx/env-reloads (real binary, SIGUSR1)"})
	case "C13":
		us = append(us, Unit{Prop: prop, Tier: tier, Kind: "procx", Index: 0, Bin: "race", Name: "procx/C13/real-runner (production task runner and exec handler under the race detector)"})
	}
	if prop == "C14" {
		for i, c := range httpxCombos() {
			us = append(us, Unit{Prop: prop, Tier: tier, Kind: "httpx", Index: i, Name: fmt.Sprintf("httpx/profiling=%v/%s", c.profiling, c.history)})
		}
	}
	if prop == "C17" {
		for i := 0; i < 8; i++ {
			us = append(us, Unit{Prop: prop, Tier: tier, Kind: "defx", Index: i, Name: fmt.Sprintf("defx/validation-grid-%d-of-8", i)})
		}
		us = append(us, Unit{Prop: prop, Tier: tier, Kind: "defx", Index: 8, Name: "defx/file-sets"})
		us = append(us, Unit{Prop: prop, Tier: tier, Kind: "defx", Index: 9, Name: "defx/equals"})
	}
	if prop == "C10" {
		us = append(us, Unit{Prop: prop, Tier: tier, Kind: "codec", Index: 0, Name: "codec/json-values"})
	}
	if prop == "C09" {
		for i, c := range crashCases(tier) {
			us = append(us, Unit{Prop: prop, Tier: tier, Kind: "crashfs", Index: i, Name: "crashfs/" + c.Name})
		}
	}
	for i, c := range x2Configs(prop, tier) {
		us = append(us, Unit{Prop: prop, Tier: tier, Kind: "x2", Index: i, Name: "x2/" + c.Name})
	}
	return us
}

// Budget is the internal deadline of a unit. It is counted in CPU time of the worker process, so that a loaded
// machine stretches the wall-clock time of a check but does not change what it explores; a generous wall-clock
// limit (4x) remains as a backstop. Hitting either ends the unit with exit 0 and exhaustive=false.
type Budget struct {
	cpu  time.Duration // process CPU time (user+sys) at which the budget is spent; 0 = unlimited
	wall time.Time
}

func cpuTime() time.Duration {
	var ru syscall.Rusage
	if err := syscall.Getrusage(syscall.RUSAGE_SELF, &ru); err != nil {
		return 0
	}
	return time.Duration(ru.Utime.Nano() + ru.Stime.Nano())
}

func newBudget(d time.Duration) Budget {
	return Budget{cpu: cpuTime() + d, wall: time.Now().Add(4 * d)}
}

func (b Budget) Exceeded() bool {
	if b.cpu == 0 {
		return false
	}
	return cpuTime() >= b.cpu || time.Now().After(b.wall)
}

func unitDeadline(tier string) time.Duration {
	if tier == "thorough" {
		return 12 * time.Minute
	}
	return 80 * time.Second
}

func runUnit(u Unit) UnitResult {
	switch u.Kind {
	case "x1":
		scs := x1Scenarios(u.Prop, u.Tier)
		sc := scs[u.Index]
		b := x1Bound(u.Prop, u.Tier)
		if sc.Bound != nil {
			b = *sc.Bound
		}
		return runX1Unit(u, sc, b)
	case "x1chunk":
		scs := x1Scenarios(u.Prop, u.Tier)
		total := UnitResult{Name: u.Name, Exhaustive: true, Unbounded: true, Bound: 1 << 30, Prescribed: 1 << 30}
		outcomes := 0
		share := 0
		for _, sc := range scs {
			if chunkOf(sc.Name) == u.Index {
				share++
			}
		}
		for i, sc := range scs {
			_ = i
			if chunkOf(sc.Name) != u.Index {
				continue
			}
			b := x1Bound(u.Prop, u.Tier)
			if sc.Bound != nil {
				b = *sc.Bound
			}
			if u.Bin == "sp" {
				// status points roughly triple the depth of an execution: one deviation less than the plain build,
				// and in the quick tier only graphs of up to 2 tasks plus the 3-task ones at bound 0
				if u.Tier != "thorough" {
					if strings.Contains(sc.Name, "dag3/") || strings.Contains(sc.Name, "dag4/") {
						b = 0
					} else if b > 1 {
						b = 1
					}
				} else if b > 0 {
					b--
				}
				if strings.HasPrefix(sc.Name, "cyclic/") || strings.HasPrefix(sc.Name, "cancel/") {
					continue // status points matter for the graph sweeps; the cancel family runs in the plain build
				}
			}
			r := runX1UnitShare(u, sc, b, share)
			total.Notes = append(total.Notes, r.Notes...)
			if r.Prescribed < total.Prescribed {
				total.Prescribed = r.Prescribed
			}
			total.Execs += r.Execs
			total.States += r.States
			total.Transitions += r.Transitions
			total.Replays += r.Replays
			outcomes += r.Outcomes
			if r.MaxDepth > total.MaxDepth {
				total.MaxDepth = r.MaxDepth
			}
			if r.Bound < total.Bound {
				total.Bound = r.Bound
			}
			total.Exhaustive = total.Exhaustive && r.Exhaustive
			total.Unbounded = total.Unbounded && r.Unbounded
			total.Caps = append(total.Caps, r.Caps...)
			if len(total.Samples) < 2 {
				total.Samples = append(total.Samples, r.Samples...)
			}
			total.Viol = append(total.Viol, r.Viol...)
		}
		total.Outcomes = outcomes
		return total
	case "x2":
		return runX2Unit(u, x2Configs(u.Prop, u.Tier)[u.Index])
	case "crashfs":
		return runCrashUnit(u)
	case "procx":
		return runProcxUnit(u)
	case "appx":
		return runAppxUnit(u)
	case "conformance":
		return runConformanceUnit(u)
	case "httpx":
		return runHTTPXUnit(u)
	case "defx":
		return runDefxUnit(u)
	case "codec":
		return runCodecUnit(u)
	}
	panic("unknown unit kind " + u.Kind)
}

func logStrings(w *World) []string {
	var res []string
	for _, e := range w.Log {
		res = append(res, e.String())
	}
	return res
}

// bonusAllowance is the CPU time of a unit within which X1 goes on to deviation bounds beyond the prescribed one
func bonusAllowance(tier string) time.Duration {
	if os.Getenv("VERIF_NO_BONUS") != "" {
		return 0
	}
	if tier == "thorough" {
		return 90 * time.Second
	}
	return 10 * time.Second
}

func runX1Unit(u Unit, sc *Scenario, bound int) UnitResult {
	return runX1UnitShare(u, sc, bound, 1)
}

// runX1UnitShare: share = number of scenarios that share the unit's bonus allowance
func runX1UnitShare(u Unit, sc *Scenario, bound int, share int) UnitResult {
	res := UnitResult{Name: u.Name}
	x := NewX1(sc, bound)
	x.Deadline = newBudget(unitDeadline(u.Tier))
	if a := bonusAllowance(u.Tier) / time.Duration(share); a >= time.Second && sc.Static == nil && os.Getenv("VERIF_BOUND") == "" {
		x.Bonus = newBudget(a)
	}
	if u.Prop == "C13" {
		if !vsched.RaceBuild && os.Getenv("VERIF_C13_NORACE") == "" {
			panic(InfraError{"C13 units must run in the race build of the engine"})
		}
		rl := newRaceLog()
		if rl == nil && vsched.RaceBuild {
			panic(InfraError{"GORACE log_path not set"})
		}
		// Tearing an execution down unwinds the parked goroutines with the shims switched off, so
		// deferred production code runs without its locks: whatever the detector says about that
		// is an artefact of the harness and is discarded.
		x.AfterClose = func() { x.RaceTeardown += len(rl.poll()) }
		x.AfterExec = func(ex *Exec) []Violation {
			var vs []Violation
			for _, rep := range rl.poll() {
				x.RaceReports++
				if strings.Contains(rep.Text, "runtime.Goexit()") {
					x.RaceTeardown++
					continue
				}
				if !rep.Prod {
					x.RaceInternal++
					continue
				}
				pair := []string{stripLine(rep.A), stripLine(rep.B)}
				sort.Strings(pair)
				vs = append(vs, Violation{Property: "C13", Rule: "data-race", Norm: "race:" + pair[0] + " <-> " + pair[1],
					Msg: "the Go race detector reports a data race in this execution:\n" + rep.Text})
			}
			return vs
		}
	}
	// determinism gate: the default execution twice, identical logs
	e1 := x.Replay(nil)
	l1 := logStrings(e1.W)
	c1 := append([]int(nil), e1.Choices...)
	e1.W.Close()
	e2 := x.Replay(c1)
	l2 := logStrings(e2.W)
	e2.W.Close()
	res.Replays = 2
	if !reflect.DeepEqual(l1, l2) {
		panic(InfraError{"determinism gate failed for " + sc.Name + ":\n" + strings.Join(l1, "\n") + "\n---\n" + strings.Join(l2, "\n")})
	}
	x.Steps = 0
	if sc.Static != nil {
		for _, v := range sc.Static() {
			x.Viol = append(x.Viol, FoundViolation{Violation: v, Scenario: sc.Name})
			res.Viol = append(res.Viol, FoundViolation{Violation: v, Scenario: sc.Name})
		}
		x.Viol = nil
	}
	x.Run()
	res.Execs = x.Execs
	res.States = x.States
	res.Transitions = x.Steps
	res.MaxDepth = x.MaxDepth
	res.Bound = x.Bound
	res.Prescribed = x.Prescribed
	if x.BonusNote != "" {
		res.Notes = append(res.Notes, sc.Name+": "+x.BonusNote)
	}
	res.Outcomes = len(x.Outcomes)
	res.Unbounded = !x.BoundHit && !x.TimedOut
	res.Exhaustive = !x.TimedOut
	if x.TimedOut {
		res.Caps = append(res.Caps, fmt.Sprintf("deadline hit at deviation bound %d after %d executions", x.Bound, x.Execs))
		if x.Bound > 0 {
			res.Bound = x.Bound - 1
		}
	}
	res.Samples = x.Samples
	if sc.PostRun != nil {
		res.Viol = append(res.Viol, sc.PostRun()...)
	}
	if x.RaceReports > 0 || u.Prop == "C13" {
		res.Extra = map[string]int{"race_reports_total": x.RaceReports, "race_reports_in_checker_code_ignored": x.RaceInternal, "race_reports_during_teardown_ignored": x.RaceTeardown}
	}
	// violations: replay each violating schedule (up to 3 distinct norms) 5 times and keep it only if it fails every time
	seen := map[string]bool{}
	for _, v := range x.Viol {
		k := v.Property + v.Norm
		if seen[k] {
			continue
		}
		seen[k] = true
		if strings.HasPrefix(v.Norm, "race:") {
			// the detector reports a racy pair once per process: it cannot be re-observed by a replay.
			// The schedule is replayed once to make sure it is reproducible as such.
			ex := x.Replay(v.Choices)
			ex.W.Close()
			res.Replays++
			res.Viol = append(res.Viol, v)
			continue
		}
		stable := true
		for i := 0; i < 5; i++ {
			ex := x.Replay(v.Choices)
			vs := checkExec(sc, ex)
			ex.W.Close()
			found := false
			for _, v2 := range vs {
				if v2.Property == v.Property && v2.Norm == v.Norm {
					found = true
				}
			}
			res.Replays++
			if !found {
				stable = false
			}
		}
		if !stable {
			panic(InfraError{"violation did not reproduce on replay: " + v.Msg})
		}
		res.Viol = append(res.Viol, v)
	}
	return res
}

func checkExec(sc *Scenario, ex *Exec) []Violation {
	var vs []Violation
	if ex.Horizon {
		vs = append(vs, Violation{Property: "*", Rule: "livelock", Norm: "livelock"})
	}
	if ex.Deadlock != "" {
		vs = append(vs, Violation{Property: "*", Rule: "deadlock", Norm: "deadlock", Msg: ex.Deadlock})
	}
	if ex.W.S.Panic != nil {
		vs = append(vs, panicViolation(ex.W.S.Panic, ex.W.S.PanicStack))
	}
	if ex.W.S.LockHazard != "" {
		vs = append(vs, Violation{Property: "*", Rule: "deadlock", Norm: "recursive-read-lock", Msg: ex.W.S.LockHazard})
	}
	if sc.Check != nil {
		vs = append(vs, sc.Check(ex.W, ex)...)
	}
	vs = append(vs, ex.W.quiescentViol...)
	return vs
}

func replayViolation(prop string, fv FoundViolation) ([]Violation, []string, error) {
	name := fv.Scenario
	for _, tier := range []string{"quick", "thorough"} {
		for _, sc := range x1Scenarios(prop, tier) {
			if sc.Name == name {
				x := NewX1(sc, 0)
				ex := x.Replay(fv.Choices)
				vs := checkExec(sc, ex)
				lines := logStrings(ex.W)
				ex.W.Close()
				return vs, lines, nil
			}
		}
	}
	// X2: configuration + history
	if fv.Config != "" {
		for _, tier := range []string{"quick", "thorough"} {
			for _, c := range x2Configs(prop, tier) {
				if c.Name != fv.Config {
					continue
				}
				w := c.replayHist(nil)
				var vs []Violation
				for _, ev := range fv.Hist {
					pre := w.Log[len(w.Log)-1].Dump
					preLen := len(w.Log)
					listed := listPipelines(w)
					c.step(w, ev)
					post := w.Log[len(w.Log)-1].Dump
					vs = append(vs, c.check(w, pre, post, ev, preLen, listed)...)
				}
				if os.Getenv("VERIF_PRINT_KEY") != "" {
					fmt.Fprintf(os.Stderr, "STATE-KEY %s\n", w.StateKey(c.Symmetry))
				}
				if c.Drain && w.Drain(200) {
					w.log(Event{Kind: EvQuiescent, Dump: w.dump(), Detail: "drain"})
					vs = append(vs, c.checkDrained(w)...)
				}
				lines := logStrings(w)
				var rc *restartCtx
				if c.Restart {
					rc = restartPhase1(w)
				}
				w.Close()
				if rc != nil {
					vs = append(vs, restartPhase2(rc)...)
				}
				return dedupV(vs), lines, nil
			}
		}
	}
	// every other engine: re-run the unit that reported it
	for _, tier := range []string{"quick", "thorough"} {
		for _, u := range unitsFor(prop, tier) {
			if u.Name == name && u.Kind != "x1" && u.Kind != "x1chunk" && u.Kind != "x2" && u.Bin == "" {
				r := runUnit(u)
				var vs []Violation
				for _, v := range r.Viol {
					vs = append(vs, v.Violation)
				}
				return vs, r.Samples, nil
			}
		}
	}
	return nil, nil, fmt.Errorf("scenario %q not found", name)
}

// ---------------------------------------------------------------------------------------------
// C04 scenarios

func allMonitors(w *World, explicitCancel bool) []Violation {
	f := buildFacts(w.Log, w.dump())
	var vs []Violation
	vs = append(vs, monC01(f)...)
	vs = append(vs, monC02(f)...)
	vs = append(vs, monC04(f)...)
	vs = append(vs, monC08(f, explicitCancel)...)
	return vs
}

func c04Scenarios(tier string) []*Scenario {
	var scs []*Scenario
	graphs := []struct {
		n string
		g map[string][]string
	}{{"chain", graphChain}, {"chain3", graphChain3}, {"fork", graphFork}, {"diamond", graphDiamond}, {"one", graphOne}}
	chk := func(w *World, x *Exec) []Violation { return allMonitors(w, true) }
	for _, g := range graphs {
		g := g
		cfg := PipeCfg{Conc: 1, QL: -1, Graph: g.g}
		scs = append(scs, &Scenario{
			Name: "cancel-running/" + g.n,
			Desc: "one job; a second client cancels it at every possible instant",
			Opts: func() WorldOpts { return WorldOpts{Defs: defsOf(cfg)} },
			Setup: func(w *World) {
				w.SpawnDriver(Op{Kind: "S", Pipeline: "p"})
				w.SpawnDriver(Op{Kind: "C", Job: 1, WaitAccepted: 1})
			},
			Check: chk, NoTick: true,
		})
	}
	// the pipeline of the running job was dropped by a reload: an acknowledged cancel still ends it as canceled
	for _, g := range []struct {
		n string
		g map[string][]string
	}{{"one", graphOne}, {"chain", graphChain}} {
		g := g
		with := mkDefs(map[string]PipeCfg{"p": {Conc: 1, QL: -1, Graph: g.g}, "z": {Conc: 1, QL: -1, Graph: graphOne}})
		without := mkDefs(map[string]PipeCfg{"z": {Conc: 1, QL: -1, Graph: graphOne}})
		scs = append(scs, &Scenario{
			Name: "cancel-running/pipeline-dropped-by-reload/" + g.n,
			Desc: "one job runs; a reload drops its pipeline; a client cancels the job at every possible instant",
			Opts: func() WorldOpts { return WorldOpts{Defs: []*definitionPipelinesDef{with, without}} },
			Setup: func(w *World) {
				w.SpawnDriver(Op{Kind: "S", Pipeline: "p"}, Op{Kind: "R", Def: 1})
				w.SpawnDriver(Op{Kind: "C", Job: 1, WaitAccepted: 1})
			},
			Check: chk, NoTick: true, Bound: heavyBound(tier),
		})
	}
	for _, cont := range []bool{false, true} {
		cont := cont
		cfg := PipeCfg{Conc: 1, QL: -1, Graph: graphPar, Continue: cont}
		scs = append(scs, &Scenario{
			Name: fmt.Sprintf("cancel-running/par-with-failures/continue=%v", cont),
			Desc: "two parallel tasks that may fail on their own; a client cancels the job at every possible instant (also after fail-fast has begun to stop it)",
			Opts: func() WorldOpts { return WorldOpts{Defs: defsOf(cfg)} },
			Setup: func(w *World) {
				w.SpawnDriver(Op{Kind: "S", Pipeline: "p"})
				w.SpawnDriver(Op{Kind: "C", Job: 1, WaitAccepted: 1})
			},
			Check: chk, NoTick: true, FailOK: true, Bound: heavyBound(tier),
		})
	}
	for _, g := range []struct {
		n string
		g map[string][]string
	}{{"one", graphOne}, {"chain", graphChain}, {"par", graphPar}} {
		g := g
		cfg := PipeCfg{Conc: 1, QL: -1, Graph: g.g}
		scs = append(scs, &Scenario{
			Name: "cancel-running/task-reacts-to-stop/" + g.n,
			Desc: "the cancelled task may die from the signal, handle it and exit non-zero, or handle it and exit 0",
			Opts: func() WorldOpts { return WorldOpts{Defs: defsOf(cfg)} },
			Setup: func(w *World) {
				w.SpawnDriver(Op{Kind: "S", Pipeline: "p"})
				w.SpawnDriver(Op{Kind: "C", Job: 1, WaitAccepted: 1})
			},
			Check: chk, NoTick: true, CancelOutcomes: true, Bound: heavyBound(tier),
		})
	}
	for _, cont := range []bool{false, true} {
		cont := cont
		cfg := PipeCfg{Conc: 1, QL: -1, Graph: graphPar, Continue: cont}
		scs = append(scs, &Scenario{
			Name: fmt.Sprintf("cancel-after-a-task-ended/par-with-failures/continue=%v", cont),
			Desc: "two parallel tasks that may fail; the client cancels once the first of them has ended (so that a fail-fast stop may already be under way)",
			Opts: func() WorldOpts { return WorldOpts{Defs: defsOf(cfg)} },
			Setup: func(w *World) {
				w.SpawnDriver(Op{Kind: "S", Pipeline: "p"})
				w.SpawnDriver(Op{Kind: "C", Job: 1, WaitEvent: EvRunExit, WaitEventJob: 1})
			},
			Check: chk, NoTick: true, FailOK: true, Bound: heavyBound(tier),
		})
	}
	// a cancel acknowledged while a shutdown is in progress (graceful: the API keeps serving until Shutdown returns) is
	// a cancel like any other: the shutdown scenarios of C11 with a racing cancel, judged by C04's monitor
	for _, sc := range c11Scenarios(tier) {
		if !strings.HasSuffix(sc.Name, "/cancel-running") && !strings.HasSuffix(sc.Name, "/cancel-waiting") {
			continue
		}
		if strings.Contains(sc.Name, "2running") || strings.Contains(sc.Name, "delayed-due") {
			continue // the heavy ones stay with C11
		}
		c := *sc
		c.Name = "cancel-during-" + sc.Name
		c.Check = func(w *World, x *Exec) []Violation { return monC04(buildFacts(w.Log, w.dump())) }
		scs = append(scs, &c)
	}
	cfgChain := PipeCfg{Conc: 1, QL: -1, Graph: graphChain}
	scs = append(scs, &Scenario{
		Name: "cancel-twice/chain",
		Desc: "two clients cancel the same running job concurrently",
		Opts: func() WorldOpts { return WorldOpts{Defs: defsOf(cfgChain)} },
		Setup: func(w *World) {
			w.SpawnDriver(Op{Kind: "S", Pipeline: "p"})
			w.SpawnDriver(Op{Kind: "C", Job: 1, WaitAccepted: 1})
			w.SpawnDriver(Op{Kind: "C", Job: 1, WaitAccepted: 1})
		},
		Check: chk, NoTick: true, Bound: heavyBound(tier),
	})
	scs = append(scs, &Scenario{
		Name: "cancel-sequence/chain",
		Desc: "cancel, cancel again, cancel unknown id, from one client while the job runs",
		Opts: func() WorldOpts { return WorldOpts{Defs: defsOf(cfgChain)} },
		Setup: func(w *World) {
			w.SpawnDriver(Op{Kind: "S", Pipeline: "p"})
			w.SpawnDriver(Op{Kind: "C", Job: 1, WaitAccepted: 1}, Op{Kind: "C", Job: 1}, Op{Kind: "C", Job: 99}, Op{Kind: "Read", Job: 1})
		},
		Check: chk, NoTick: true, Bound: heavyBound(tier),
	})
	scs = append(scs, &Scenario{
		Name:   "cancel-waiting/nodelay",
		Desc:   "job 1 runs, job 2 and 3 wait; cancel of job 2 races with the completion of job 1",
		Opts:   func() WorldOpts { return WorldOpts{Defs: defsOf(PipeCfg{Conc: 1, QL: -1, Graph: graphOne})} },
		Prefix: []XEvent{{Kind: "S", P: "p"}, {Kind: "S", P: "p"}, {Kind: "S", P: "p"}},
		Setup: func(w *World) {
			w.Accepted = 3
			w.SpawnDriver(Op{Kind: "C", Job: 2})
		},
		Check: chk, NoTick: true,
	})
	scs = append(scs, &Scenario{
		Name:   "cancel-running-with-queue/chain",
		Desc:   "job 1 runs a->b with two jobs queued behind; cancel of job 1 at every instant",
		Opts:   func() WorldOpts { return WorldOpts{Defs: defsOf(cfgChain)} },
		Prefix: []XEvent{{Kind: "S", P: "p"}, {Kind: "S", P: "p"}, {Kind: "S", P: "p"}},
		Setup: func(w *World) {
			w.Accepted = 3
			w.SpawnDriver(Op{Kind: "C", Job: 1})
		},
		Check: chk, NoTick: true,
	})
	delayCfg := PipeCfg{Conc: 1, QL: -1, Delay: 10 * time.Second, Graph: graphOne}
	scs = append(scs, &Scenario{
		Name: "cancel-delayed/append",
		Desc: "a delayed job is cancelled while its start timer is pending or firing",
		Opts: func() WorldOpts { return WorldOpts{Defs: defsOf(delayCfg)} },
		Setup: func(w *World) {
			w.SpawnDriver(Op{Kind: "S", Pipeline: "p"})
			w.SpawnDriver(Op{Kind: "C", Job: 1, WaitAccepted: 1})
		},
		Check: chk,
	})
	scs = append(scs, &Scenario{
		Name:   "cancel-finished/one",
		Desc:   "cancel of a job that has finished, and of an unknown id",
		Opts:   func() WorldOpts { return WorldOpts{Defs: defsOf(PipeCfg{Conc: 1, QL: -1, Graph: graphOne})} },
		Prefix: []XEvent{{Kind: "S", P: "p"}, {Kind: "Dok", Job: 1, Task: "a"}},
		Setup: func(w *World) {
			w.Accepted = 1
			w.SpawnDriver(Op{Kind: "C", Job: 1}, Op{Kind: "C", Job: 7})
		},
		Check: chk, NoTick: true,
	})
	return scs
}

func prefixed(p string, scs []*Scenario) []*Scenario {
	for _, sc := range scs {
		sc.Name = p + sc.Name
	}
	return scs
}

// heavyBound is the deviation bound for scenarios with three or more client threads
func heavyBound(tier string) *int {
	if tier == "thorough" {
		return intp(2)
	}
	return intp(1)
}

// c06Scenarios: the order of starts when completions, failures to start, cancels and new requests race
func c06Scenarios(tier string) []*Scenario {
	chk := func(w *World, x *Exec) []Violation { return monC06(buildFacts(w.Log, w.dump())) }
	S := XEvent{Kind: "S", P: "p"}
	mk := func(name, desc string, cfg PipeCfg, prefix []XEvent, acc int, drivers ...[]Op) *Scenario {
		return &Scenario{Name: name, Desc: desc, Opts: func() WorldOpts { return WorldOpts{Defs: defsOf(cfg)} }, Prefix: prefix,
			Setup: func(w *World) {
				w.Accepted = acc
				for _, d := range drivers {
					w.SpawnDriver(d...)
				}
			}, Check: chk, NoTick: cfg.Delay == 0, FailOK: strings.HasPrefix(name, "failure-"), Bound: func() *int {
				if len(drivers) > 1 || cfg.Conc > 1 || strings.HasPrefix(name, "failure-") {
					return heavyBound(tier)
				}
				return nil
			}()}
	}
	one := PipeCfg{Conc: 1, QL: -1, Graph: graphOne}
	two := PipeCfg{Conc: 2, QL: -1, Graph: graphOne}
	scs := c06List(mk, one, two, S)
	for _, sc := range scs {
		if strings.HasPrefix(sc.Name, "failure-") {
			// job 1 is accepted under the two-parallel-tasks definition; the definition is then reloaded to a single
			// task so that the later jobs are small
			sc.Opts = func() WorldOpts {
				return WorldOpts{Defs: defsOf(PipeCfg{Conc: 1, QL: -1, Graph: graphPar}, PipeCfg{Conc: 1, QL: -1, Graph: graphOne})}
			}
			sc.Prefix = []XEvent{S, {Kind: "R", Def: 1}, S}
		}
	}
	for _, sc := range scs {
		if strings.HasPrefix(sc.Name, "failure-") {
			// only the tasks of the first job may fail (the later jobs just have to start in order)
			sc.FailOK = false
			sc.Env = func(w *World) []EnvEvent {
				var evs []EnvEvent
				for _, rs := range w.ParkedRuns() {
					evs = append(evs, EnvEvent{Kind: "done", Inst: rs.inst, Task: rs.task})
					if rs.inst == 1 {
						evs = append(evs, EnvEvent{Kind: "fail", Inst: rs.inst, Task: rs.task})
					}
				}
				return evs
			}
		}
	}
	return scs
}

func c06List(mk func(name, desc string, cfg PipeCfg, prefix []XEvent, acc int, drivers ...[]Op) *Scenario, one, two PipeCfg, S XEvent) []*Scenario {
	return []*Scenario{
		mk("completion-vs-schedule/conc1", "job 1 runs, jobs 2 and 3 wait; job 1 completes while a new request arrives", one, []XEvent{S, S, S}, 3, []Op{{Kind: "S", Pipeline: "p"}}),
		mk("completion-vs-schedule/conc2", "jobs 1,2 run, jobs 3,4 wait; completions race with a new request", two, []XEvent{S, S, S, S}, 4, []Op{{Kind: "S", Pipeline: "p"}}),
		mk("last-completion-vs-two-requests/conc1", "job 1 is the only job and runs; a client sends two requests, one after the other, while job 1 completes", one, []XEvent{S}, 1, []Op{{Kind: "S", Pipeline: "p"}, {Kind: "S", Pipeline: "p"}}),
		mk("completions-vs-two-requests/conc2", "jobs 1,2 run, nothing waits; a client sends two requests, one after the other, while they complete", two, []XEvent{S, S}, 2, []Op{{Kind: "S", Pipeline: "p"}, {Kind: "S", Pipeline: "p"}}),
		mk("completion-vs-cancel/conc1", "job 1 runs, jobs 2,3,4 wait; cancel of job 2 races with the completion of job 1", one, []XEvent{S, S, S, S}, 4, []Op{{Kind: "C", Job: 2}}),
		mk("cancel-of-running-vs-schedule/conc1", "job 1 runs, jobs 2,3 wait; job 1 is cancelled while a new request arrives", one, []XEvent{S, S, S}, 3, []Op{{Kind: "C", Job: 1}}, []Op{{Kind: "S", Pipeline: "p"}}),
		mk("failure-of-running-vs-schedule/conc1", "job 1 runs two parallel tasks (fail-fast), job 2 waits; a task fails and, once the other task has been told to stop, a new request arrives", PipeCfg{Conc: 1, QL: -1, Graph: graphPar}, []XEvent{S, S}, 2, []Op{{Kind: "S", Pipeline: "p", WaitEvent: EvCancelCalled, WaitEventJob: 1}}),
		mk("bad-head-vs-schedule/conc1", "job 1 runs, job 2 (cannot start) and jobs 3,4 wait; completion races with a new request", one, []XEvent{S, {Kind: "Sbad", P: "p"}, S, S}, 4, []Op{{Kind: "S", Pipeline: "p"}}),
		mk("delayed/conc1", "three delayed jobs; timers, a cancel and a new request race", PipeCfg{Conc: 1, QL: -1, Graph: graphOne, Delay: dly}, []XEvent{S, S, S}, 3, []Op{{Kind: "C", Job: 1}}, []Op{{Kind: "S", Pipeline: "p"}}),
	}
}

// raceScenarios: X1 scenarios started from non-initial states (an X2 history as prefix) in which the
// asynchronous actors of the runner race: completions, cancels, timers, reloads and new requests.
// The same family serves C01 (interval monitor), C03 (nothing stranded after the drain), C07 (delay
// bounds, debounce) and C16 (snapshot at accept time); each check applies its own monitor.
func raceScenarios(prop, tier string) []*Scenario {
	S := XEvent{Kind: "S", P: "p"}
	check := func(w *World, x *Exec) []Violation {
		final := w.dump()
		f := buildFacts(w.Log, final)
		var vs []Violation
		switch prop {
		case "C01":
			vs = append(vs, monC01(f)...)
			vs = append(vs, monC02(f)...)
		case "C03":
			vs = append(vs, monStranded(f, final, "C03")...)
		case "C07":
			vs = append(vs, monC07(f, w.S.Elapsed())...)
			vs = append(vs, monC07Drained(f, final)...)
		case "C16":
			vs = append(vs, monC16(w, f)...)
			vs = append(vs, monStranded(f, final, "C16")...)
			vs = append(vs, monC02(f)...)
		}
		return vs
	}
	type sc struct {
		name, desc string
		cfgs       []PipeCfg
		prefix     []XEvent
		acc        int
		drivers    [][]Op
		heavy      bool
		only       string // "" = all properties
	}
	one := PipeCfg{Conc: 1, QL: -1, Graph: graphOne}
	two := PipeCfg{Conc: 2, QL: -1, Graph: graphOne}
	chain := PipeCfg{Conc: 1, QL: -1, Graph: graphChain}
	del := PipeCfg{Conc: 1, QL: -1, Graph: graphOne, Delay: dly}
	delRep := PipeCfg{Conc: 1, QL: 1, Replace: true, Graph: graphOne, Delay: dly}
	del2 := PipeCfg{Conc: 2, QL: -1, Graph: graphOne, Delay: dly}
	chainB := chain
	chainB.Graph = map[string][]string{"a": nil, "b": {"a"}, "c": {"b"}}
	list := []sc{
		{"3-schedules-vs-2-completions/conc2", "two jobs run, one waits; three clients schedule while the running tasks complete", []PipeCfg{two}, []XEvent{S, S, S}, 3,
			[][]Op{{{Kind: "S", Pipeline: "p"}}, {{Kind: "S", Pipeline: "p"}}}, true, ""},
		{"dequeue-over-graph-error/conc2", "jobs 1,2 run; job 3 cannot build its graph, jobs 4,5 wait behind it; completions race with a cancel", []PipeCfg{two}, []XEvent{S, S, {Kind: "Sbad", P: "p"}, S, S}, 5,
			[][]Op{{{Kind: "C", Job: 4}}}, true, ""},
		{"cancel-vs-completion-of-slot-holder/conc1", "job 1 runs, jobs 2,3 wait; cancel of job 1 races with its completion", []PipeCfg{one}, []XEvent{S, S, S}, 3,
			[][]Op{{{Kind: "C", Job: 1}}}, false, ""},
		{"timer-vs-completion/conc1", "job 1 (started after its delay) runs, job 2's timer is pending; expiry races with the completion of job 1 and a cancel of job 2", []PipeCfg{del}, []XEvent{S, {Kind: "Adv", D: dly}, S}, 2,
			[][]Op{{{Kind: "C", Job: 2}}}, false, ""},
		{"timer-vs-replace/conc1", "replace strategy: job 1's timer is about to fire while two clients schedule replacements", []PipeCfg{delRep}, []XEvent{S}, 1,
			[][]Op{{{Kind: "S", Pipeline: "p"}}, {{Kind: "S", Pipeline: "p"}}}, true, ""},
		{"timers-conc2", "two delayed jobs, concurrency 2; timers, completions and a new request race", []PipeCfg{del2}, []XEvent{S, S}, 2,
			[][]Op{{{Kind: "S", Pipeline: "p"}}}, true, ""},
		{"concurrent-schedules-idle/conc1", "two clients schedule an idle pipeline with concurrency 1 at once", []PipeCfg{one}, nil, 0,
			[][]Op{{{Kind: "S", Pipeline: "p"}}, {{Kind: "S", Pipeline: "p"}}}, false, ""},
		{"schedule-vs-last-completion/conc1", "job 1 is the only running job; a new request races with its completion", []PipeCfg{one}, []XEvent{S}, 1,
			[][]Op{{{Kind: "S", Pipeline: "p"}}}, false, ""},
		{"schedule-vs-last-completion/conc2", "jobs 1,2 run; two new requests race with their completions", []PipeCfg{two}, []XEvent{S, S}, 2,
			[][]Op{{{Kind: "S", Pipeline: "p"}}, {{Kind: "S", Pipeline: "p"}}}, true, ""},
		{"concurrent-schedules-replace-idle", "replace strategy with delay, idle pipeline: two clients schedule at once", []PipeCfg{delRep}, nil, 0,
			[][]Op{{{Kind: "S", Pipeline: "p"}}, {{Kind: "S", Pipeline: "p"}}}, false, ""},
		{"reload-limit-vs-completion", "concurrency 1 -> 2 -> 1 reloads race with completions while jobs wait", []PipeCfg{one, two}, []XEvent{S, S, S}, 3,
			[][]Op{{{Kind: "R", Def: 1}, {Kind: "R", Def: 0}}}, false, ""},
		{"reload-tasks-vs-running-job", "the task list is reloaded while job 1 runs a->b and job 2 waits; a third job is accepted afterwards", []PipeCfg{chain, chainB}, []XEvent{S, S}, 2,
			[][]Op{{{Kind: "R", Def: 1}, {Kind: "S", Pipeline: "p"}}}, false, ""},
		{"reload-delay-vs-timer", "start_delay 10s -> 0 is reloaded while job 1's timer is pending and job 2 is accepted", []PipeCfg{del, one}, []XEvent{S}, 1,
			[][]Op{{{Kind: "R", Def: 1}}, {{Kind: "S", Pipeline: "p"}}}, true, ""},
		{"list-vs-schedule-and-completion/conc1", "job 1 runs, job 2 waits; a client lists jobs and pipelines while another schedules and job 1 completes", []PipeCfg{one}, []XEvent{S, S}, 2,
			[][]Op{{{Kind: "List"}}, {{Kind: "S", Pipeline: "p"}}}, false, ""},
		{"reload-adds-delay-vs-completion", "start_delay 0 -> 10s is reloaded while job 1 runs and job 2 waits", []PipeCfg{one, del}, []XEvent{S, S}, 2,
			[][]Op{{{Kind: "R", Def: 1}}}, false, ""},
	}
	var res []*Scenario
	for _, c := range list {
		c := c
		sce := &Scenario{
			Name: c.name, Desc: c.desc,
			Opts:   func() WorldOpts { return WorldOpts{Defs: defsOf(c.cfgs...)} },
			Prefix: c.prefix,
			Setup: func(w *World) {
				w.Accepted = c.acc
				for _, d := range c.drivers {
					w.SpawnDriver(d...)
				}
			},
			Check: check,
		}
		if prop == "C03" || prop == "C07" {
			// "as soon as a slot is free": judged at every point at which nothing can run, not only at the end
			sce.QuiescentCheck = func(w *World) []Violation {
				d := w.dump()
				return monPrompt(buildFacts(w.Log, d), d, w.S.Elapsed(), prop == "C03", prop == "C07")
			}
		}
		hasTimer := false
		for _, cf := range c.cfgs {
			if cf.Delay > 0 {
				hasTimer = true
			}
		}
		sce.NoTick = !hasTimer
		if c.heavy {
			sce.Bound = heavyBound(tier)
		}
		res = append(res, sce)
	}
	return res
}

// c05Scenarios: concurrent schedule requests against the admission limits
func c05Scenarios(tier string) []*Scenario {
	chk := func(w *World, x *Exec) []Violation {
		f := buildFacts(w.Log, w.dump())
		var vs []Violation
		for _, di := range f.Dumps {
			vs = append(vs, monC05(f, nil, f.Log[di].Dump, XEvent{}, nil)...)
		}
		vs = append(vs, monC01(f)...)
		// the number of accepted requests is bounded by slots + queue slots
		// the decision table at every request: a request decides inside one critical section, so the state it decided on
		// is the one reported at the last release of the runner lock before its own
		for i, e := range f.Log {
			if e.Kind != EvApiRet || !strings.HasPrefix(e.Detail, "S(") {
				continue
			}
			own := -1
			for k := i - 1; k >= 0; k-- {
				if f.Log[k].Kind == EvUnlock && f.Log[k].Thread == e.Thread {
					own = k
					break
				}
				if f.Log[k].Kind == EvApiCall && f.Log[k].Thread == e.Thread {
					break
				}
			}
			if own < 0 {
				continue
			}
			if pre, post := f.dumpBefore(own), f.Log[own].Dump; pre != nil && post != nil {
				vs = append(vs, monC05(f, pre, post, XEvent{Kind: "S", P: "p"}, []Event{e})...)
			}
		}
		return dedupV(vs)
	}
	var scs []*Scenario
	for _, ql := range []int{0, 1} {
		for _, n := range []int{2, 3} {
			ql, n := ql, n
			if n == 3 && tier != "thorough" && ql == 1 {
				continue
			}
			cfg := PipeCfg{Conc: 1, QL: ql, Graph: graphOne}
			sc := &Scenario{Name: fmt.Sprintf("concurrent-schedules/ql=%d/n=%d", ql, n), Desc: "n clients schedule the same pipeline at once (concurrency 1)",
				Opts: func() WorldOpts { return WorldOpts{Defs: defsOf(cfg)} },
				Setup: func(w *World) {
					for i := 0; i < n; i++ {
						w.SpawnDriver(Op{Kind: "S", Pipeline: "p"})
					}
				}, Check: chk, NoTick: true}
			if n == 3 {
				sc.Bound = heavyBound(tier)
			}
			scs = append(scs, sc)
		}
	}
	// a cancel of a delayed waiting job that races the expiry of its start timer (the callback may already be waiting
	// for the runner lock), then a new request: the canceled job holds no queue slot
	for _, ql := range []int{1, 2} {
		ql := ql
		dcfg := PipeCfg{Conc: 1, QL: ql, Graph: graphOne, Delay: dly}
		pre := []XEvent{{Kind: "S", P: "p"}, {Kind: "Adv", D: dly}, {Kind: "S", P: "p"}}
		scs = append(scs, &Scenario{Name: fmt.Sprintf("cancel-vs-timer-expiry-then-schedule/ql=%d", ql), Desc: "job 1 runs, job 2 waits with its delay about to expire; a client cancels job 2 and schedules again while the timer fires",
			Opts: func() WorldOpts { return WorldOpts{Defs: defsOf(dcfg)} }, Prefix: pre,
			Setup: func(w *World) {
				w.Accepted = 2
				w.SpawnDriver(Op{Kind: "C", Job: 2}, Op{Kind: "S", Pipeline: "p"}, Op{Kind: "S", Pipeline: "p"})
			}, Check: chk})
	}
	rep := PipeCfg{Conc: 1, QL: 1, Replace: true, Graph: graphOne}
	scs = append(scs, &Scenario{Name: "concurrent-schedules/replace", Desc: "two clients schedule a replace pipeline while one job runs and one waits",
		Opts: func() WorldOpts { return WorldOpts{Defs: defsOf(rep)} }, Prefix: []XEvent{{Kind: "S", P: "p"}, {Kind: "S", P: "p"}},
		Setup: func(w *World) {
			w.Accepted = 2
			w.SpawnDriver(Op{Kind: "S", Pipeline: "p"})
			w.SpawnDriver(Op{Kind: "S", Pipeline: "p"})
		}, Check: chk, NoTick: true})
	return scs
}

// c15Scenarios: the task order of the report (static, no execution needed beyond one default run)
func c15Scenarios(tier string) []*Scenario {
	maxN := 4
	if tier == "thorough" {
		maxN = 5
	}
	var scs []*Scenario
	for n := 1; n <= maxN; n++ {
		n := n
		scs = append(scs, &Scenario{
			Name:  fmt.Sprintf("task-order/all-dags-on-%d-tasks", n),
			Desc:  "reported task order: topological, identical for every permutation of the definition's task list, also with repeated depends_on entries",
			Opts:  func() WorldOpts { return WorldOpts{Defs: defsOf(PipeCfg{Conc: 1, QL: -1, Graph: graphChain})} },
			Setup: func(w *World) { w.SpawnDriver(Op{Kind: "S", Pipeline: "p"}) },
			Static: func() []Violation {
				var vs []Violation
				for _, g := range allDAGs(n) {
					vs = append(vs, checkSortAndCycle(g)...)
					for _, dg := range withDuplicateDeps(g) {
						vs = append(vs, checkSortAndCycle(dg)...)
					}
				}
				return dedupV(vs)
			},
			Check: func(w *World, x *Exec) []Violation {
				// tasks of the running/finished job are listed after their dependencies
				var vs []Violation
				d := w.dump()
				for _, j := range d.Jobs {
					pos := map[string]int{}
					for i, t := range j.Tasks {
						pos[t.Name] = i
					}
					for _, t := range j.Tasks {
						for _, dep := range t.Deps {
							if pos[dep] >= pos[t.Name] {
								vs = append(vs, Violation{Property: "C15", Rule: "task-order-topological", Norm: "task-listed-before-dependency", Msg: fmt.Sprintf("job %d lists task %s before its dependency %s", j.Idx, t.Name, dep)})
							}
						}
					}
				}
				return vs
			},
			NoTick: true, Bound: intp(0),
		})
	}
	return scs
}

func defsOf(cfgs ...PipeCfg) []*definitionPipelinesDef {
	var res []*definitionPipelinesDef
	for _, c := range cfgs {
		res = append(res, mkDefs(map[string]PipeCfg{"p": c}))
	}
	return res
}
