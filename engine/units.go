package main

import (
	"fmt"
	"reflect"
	"strings"
	"time"
)

// x1Scenarios returns the X1 scenarios of a property (deterministic order)
func x1Scenarios(prop, tier string) []*Scenario {
	switch prop {
	case "C04":
		return c04Scenarios(tier)
	}
	return nil
}

func x1Bound(prop, tier string) int {
	if tier == "thorough" {
		return 3
	}
	return 2
}

func unitsFor(prop, tier string) []Unit {
	var us []Unit
	for i, sc := range x1Scenarios(prop, tier) {
		us = append(us, Unit{Prop: prop, Tier: tier, Kind: "x1", Index: i, Name: "x1/" + sc.Name})
	}
	for i, c := range x2Configs(prop, tier) {
		us = append(us, Unit{Prop: prop, Tier: tier, Kind: "x2", Index: i, Name: "x2/" + c.Name})
	}
	return us
}

func unitDeadline(tier string) time.Duration {
	if tier == "thorough" {
		return 12 * time.Minute
	}
	return 75 * time.Second
}

func runUnit(u Unit) UnitResult {
	switch u.Kind {
	case "x1":
		scs := x1Scenarios(u.Prop, u.Tier)
		sc := scs[u.Index]
		return runX1Unit(u, sc, x1Bound(u.Prop, u.Tier))
	case "x2":
		return runX2Unit(u, x2Configs(u.Prop, u.Tier)[u.Index])
	}
	panic("unknown unit kind " + u.Kind)
}

func logStrings(w *World) []string {
	var res []string
	for _, e := range w.Log {
		res = append(res, e.String())
	}
	return res
}

func runX1Unit(u Unit, sc *Scenario, bound int) UnitResult {
	res := UnitResult{Name: u.Name}
	x := NewX1(sc, bound)
	x.Deadline = time.Now().Add(unitDeadline(u.Tier))
	// determinism gate: the default execution twice, identical logs
	e1 := x.Replay(nil)
	l1 := logStrings(e1.W)
	c1 := append([]int(nil), e1.Choices...)
	e1.W.Close()
	e2 := x.Replay(c1)
	l2 := logStrings(e2.W)
	e2.W.Close()
	res.Replays = 2
	if !reflect.DeepEqual(l1, l2) {
		panic(InfraError{"determinism gate failed for " + sc.Name + ":\n" + strings.Join(l1, "\n") + "\n---\n" + strings.Join(l2, "\n")})
	}
	x.Steps = 0
	x.Run()
	res.Execs = x.Execs
	res.States = x.States
	res.Transitions = x.Steps
	res.MaxDepth = x.MaxDepth
	res.Bound = x.Bound
	res.Outcomes = len(x.Outcomes)
	res.Unbounded = !x.BoundHit && !x.TimedOut
	res.Exhaustive = !x.TimedOut
	if x.TimedOut {
		res.Caps = append(res.Caps, fmt.Sprintf("deadline hit at deviation bound %d after %d executions", x.Bound, x.Execs))
		if x.Bound > 0 {
			res.Bound = x.Bound - 1
		}
	}
	res.Samples = x.Samples
	// violations: replay each violating schedule (up to 3 distinct norms) 5 times and keep it only if it fails every time
	seen := map[string]bool{}
	for _, v := range x.Viol {
		k := v.Property + v.Norm
		if seen[k] {
			continue
		}
		seen[k] = true
		stable := true
		for i := 0; i < 5; i++ {
			ex := x.Replay(v.Choices)
			vs := checkExec(sc, ex)
			ex.W.Close()
			found := false
			for _, v2 := range vs {
				if v2.Property == v.Property && v2.Norm == v.Norm {
					found = true
				}
			}
			res.Replays++
			if !found {
				stable = false
			}
		}
		if !stable {
			panic(InfraError{"violation did not reproduce on replay: " + v.Msg})
		}
		res.Viol = append(res.Viol, v)
	}
	return res
}

func checkExec(sc *Scenario, ex *Exec) []Violation {
	var vs []Violation
	if ex.Horizon {
		vs = append(vs, Violation{Property: "*", Rule: "livelock", Norm: "livelock"})
	}
	if ex.Deadlock != "" {
		vs = append(vs, Violation{Property: "*", Rule: "deadlock", Norm: "deadlock", Msg: ex.Deadlock})
	}
	if ex.W.S.Panic != nil {
		vs = append(vs, Violation{Property: "C13", Rule: "panic", Norm: "panic"})
	}
	if sc.Check != nil {
		vs = append(vs, sc.Check(ex.W, ex)...)
	}
	return vs
}

func replayViolation(prop string, fv FoundViolation) ([]Violation, []string, error) {
	name := fv.Scenario
	for _, tier := range []string{"quick", "thorough"} {
		for _, sc := range x1Scenarios(prop, tier) {
			if sc.Name == name {
				x := NewX1(sc, 0)
				ex := x.Replay(fv.Choices)
				vs := checkExec(sc, ex)
				lines := logStrings(ex.W)
				ex.W.Close()
				return vs, lines, nil
			}
		}
	}
	return nil, nil, fmt.Errorf("scenario %q not found", name)
}

// ---------------------------------------------------------------------------------------------
// C04 scenarios

func allMonitors(w *World, explicitCancel bool) []Violation {
	f := buildFacts(w.Log, w.dump())
	var vs []Violation
	vs = append(vs, monC01(f)...)
	vs = append(vs, monC02(f)...)
	vs = append(vs, monC04(f)...)
	vs = append(vs, monC08(f, explicitCancel)...)
	return vs
}

func c04Scenarios(tier string) []*Scenario {
	var scs []*Scenario
	graphs := []struct {
		n string
		g map[string][]string
	}{{"chain", graphChain}, {"chain3", graphChain3}, {"fork", graphFork}, {"diamond", graphDiamond}, {"one", graphOne}}
	chk := func(w *World, x *Exec) []Violation { return allMonitors(w, true) }
	for _, g := range graphs {
		g := g
		cfg := PipeCfg{Conc: 1, QL: -1, Graph: g.g}
		scs = append(scs, &Scenario{
			Name: "cancel-running/" + g.n,
			Desc: "one job; a second client cancels it at every possible instant",
			Opts: func() WorldOpts { return WorldOpts{Defs: defsOf(cfg)} },
			Setup: func(w *World) {
				w.SpawnDriver(Op{Kind: "S", Pipeline: "p"})
				w.SpawnDriver(Op{Kind: "C", Job: 1, WaitAccepted: 1})
			},
			Check: chk, NoTick: true,
		})
	}
	cfgChain := PipeCfg{Conc: 1, QL: -1, Graph: graphChain}
	scs = append(scs, &Scenario{
		Name: "cancel-twice/chain",
		Desc: "two clients cancel the same running job concurrently",
		Opts: func() WorldOpts { return WorldOpts{Defs: defsOf(cfgChain)} },
		Setup: func(w *World) {
			w.SpawnDriver(Op{Kind: "S", Pipeline: "p"})
			w.SpawnDriver(Op{Kind: "C", Job: 1, WaitAccepted: 1})
			w.SpawnDriver(Op{Kind: "C", Job: 1, WaitAccepted: 1})
		},
		Check: chk, NoTick: true,
	})
	scs = append(scs, &Scenario{
		Name: "cancel-sequence/chain",
		Desc: "cancel, cancel again, cancel unknown id, from one client while the job runs",
		Opts: func() WorldOpts { return WorldOpts{Defs: defsOf(cfgChain)} },
		Setup: func(w *World) {
			w.SpawnDriver(Op{Kind: "S", Pipeline: "p"})
			w.SpawnDriver(Op{Kind: "C", Job: 1, WaitAccepted: 1}, Op{Kind: "C", Job: 1}, Op{Kind: "C", Job: 99}, Op{Kind: "Read", Job: 1})
		},
		Check: chk, NoTick: true,
	})
	scs = append(scs, &Scenario{
		Name:   "cancel-waiting/nodelay",
		Desc:   "job 1 runs, job 2 and 3 wait; cancel of job 2 races with the completion of job 1",
		Opts:   func() WorldOpts { return WorldOpts{Defs: defsOf(PipeCfg{Conc: 1, QL: -1, Graph: graphOne})} },
		Prefix: []XEvent{{Kind: "S", P: "p"}, {Kind: "S", P: "p"}, {Kind: "S", P: "p"}},
		Setup: func(w *World) {
			w.Accepted = 3
			w.SpawnDriver(Op{Kind: "C", Job: 2})
		},
		Check: chk, NoTick: true,
	})
	scs = append(scs, &Scenario{
		Name:   "cancel-running-with-queue/chain",
		Desc:   "job 1 runs a->b with two jobs queued behind; cancel of job 1 at every instant",
		Opts:   func() WorldOpts { return WorldOpts{Defs: defsOf(cfgChain)} },
		Prefix: []XEvent{{Kind: "S", P: "p"}, {Kind: "S", P: "p"}, {Kind: "S", P: "p"}},
		Setup: func(w *World) {
			w.Accepted = 3
			w.SpawnDriver(Op{Kind: "C", Job: 1})
		},
		Check: chk, NoTick: true,
	})
	delayCfg := PipeCfg{Conc: 1, QL: -1, Delay: 10 * time.Second, Graph: graphOne}
	scs = append(scs, &Scenario{
		Name: "cancel-delayed/append",
		Desc: "a delayed job is cancelled while its start timer is pending or firing",
		Opts: func() WorldOpts { return WorldOpts{Defs: defsOf(delayCfg)} },
		Setup: func(w *World) {
			w.SpawnDriver(Op{Kind: "S", Pipeline: "p"})
			w.SpawnDriver(Op{Kind: "C", Job: 1, WaitAccepted: 1})
		},
		Check: chk,
	})
	scs = append(scs, &Scenario{
		Name:   "cancel-finished/one",
		Desc:   "cancel of a job that has finished, and of an unknown id",
		Opts:   func() WorldOpts { return WorldOpts{Defs: defsOf(PipeCfg{Conc: 1, QL: -1, Graph: graphOne})} },
		Prefix: []XEvent{{Kind: "S", P: "p"}, {Kind: "Dok", Job: 1, Task: "a"}},
		Setup: func(w *World) {
			w.Accepted = 1
			w.SpawnDriver(Op{Kind: "C", Job: 1}, Op{Kind: "C", Job: 7})
		},
		Check: chk, NoTick: true,
	})
	return scs
}

func defsOf(cfgs ...PipeCfg) []*definitionPipelinesDef {
	var res []*definitionPipelinesDef
	for _, c := range cfgs {
		res = append(res, mkDefs(map[string]PipeCfg{"p": c}))
	}
	return res
}
