package main

// appx.go: the real prunner binary (built from /repo's working tree by bin/build) driven over
// exhaustive small grammars: reload histories and single-field edits of the definition files
// (SIGUSR1, oracle: the reload log line and the tasks of a job accepted afterwards), and
// shutdown signals. Free-running: the schedule inside the binary is not owned by the checker.

import (
	"bytes"
	"fmt"
	"io"
	"net"
	"net/http"
	"os"
	"os/exec"
	"path/filepath"
	"reflect"
	"sort"
	"strings"
	"sync"
	"syscall"
	"time"

	"github.com/Flowpack/prunner/definition"
	"github.com/Flowpack/prunner/store"
)

var prunnerBin = filepath.Join(verifDir, ".cache", "bin", "prunner")

type lockedBuf struct {
	mu sync.Mutex
	b  bytes.Buffer
}

func (l *lockedBuf) Write(p []byte) (int, error) {
	l.mu.Lock()
	defer l.mu.Unlock()
	return l.b.Write(p)
}
func (l *lockedBuf) String() string {
	l.mu.Lock()
	defer l.mu.Unlock()
	return l.b.String()
}

type appProc struct {
	cmd    *exec.Cmd
	dir    string
	addr   string
	logs   *lockedBuf
	exited chan error
}

func freeAddr() string {
	l, err := net.Listen("tcp", "127.0.0.1:0")
	if err != nil {
		panic(err)
	}
	a := l.Addr().String()
	l.Close()
	return a
}

// rewriteKeepingMtime replaces the content of a definition file the way `cp -p` / `rsync -t` / a restored backup do:
// the modification time stays what it was. A loader that decides from size and mtime whether a file changed must
// not miss such an edit (many single-field edits do not change the size either).
func rewriteKeepingMtime(path, content string) {
	var mtime time.Time
	if st, err := os.Stat(path); err == nil {
		mtime = st.ModTime()
	}
	if err := os.WriteFile(path, []byte(content), 0o644); err != nil {
		panic(err)
	}
	if !mtime.IsZero() {
		_ = os.Chtimes(path, mtime, mtime)
	}
}

func startApp(files map[string]string, extraEnv ...string) *appProc {
	dir, err := os.MkdirTemp("", "verif-appx-")
	if err != nil {
		panic(err)
	}
	a := &appProc{dir: dir, addr: freeAddr(), logs: &lockedBuf{}, exited: make(chan error, 1)}
	for rel, content := range files {
		writeFile(filepath.Join(dir, "defs"), rel, content)
	}
	a.cmd = exec.Command(prunnerBin, "--path", filepath.Join(dir, "defs"), "--data", filepath.Join(dir, "data"), "--config", filepath.Join(dir, "prunner.yml"),
		"--jwt-secret", jwtSecret, "--address", a.addr, "--verbose", "--disable-ansi", "--poll-interval", "1h")
	a.cmd.Dir = dir
	a.cmd.Stderr = a.logs
	a.cmd.Stdout = a.logs
	a.cmd.Env = append(os.Environ(), extraEnv...)
	if err := a.cmd.Start(); err != nil {
		panic(InfraError{"cannot start " + prunnerBin + ": " + err.Error()})
	}
	go func() { a.exited <- a.cmd.Wait() }()
	// wait for the API
	for i := 0; i < 500; i++ {
		if code, _ := a.api("GET", "/pipelines/", ""); code == 200 {
			return a
		}
		select {
		case err := <-a.exited:
			panic(InfraError{fmt.Sprintf("prunner exited during start: %v\n%s", err, a.logs.String())})
		default:
		}
		time.Sleep(10 * time.Millisecond)
	}
	panic(InfraError{"prunner did not answer on " + a.addr + "\n" + a.logs.String()})
}

func (a *appProc) api(method, path, body string) (int, []byte) {
	req, _ := http.NewRequest(method, "http://"+a.addr+path, bytes.NewBufferString(body))
	req.Header.Set("Authorization", "Bearer "+validToken())
	c := http.Client{Timeout: 5 * time.Second}
	resp, err := c.Do(req)
	if err != nil {
		return 0, nil
	}
	defer resp.Body.Close()
	b, _ := io.ReadAll(resp.Body)
	return resp.StatusCode, b
}

func (a *appProc) stop() {
	if a.cmd.Process != nil {
		a.cmd.Process.Signal(syscall.SIGTERM)
		select {
		case <-a.exited:
		case <-time.After(5 * time.Second):
			a.cmd.Process.Kill()
		}
	}
	os.RemoveAll(a.dir)
}

const (
	logChanged   = "Definitions changed, loaded"
	logUnchanged = "no changes detected"
	logLoadError = "Error loading pipeline definitions"
)

// reload sends SIGUSR1 and waits for the one log line that every reload produces
func (a *appProc) reload() string {
	count := func() [3]int {
		s := a.logs.String()
		return [3]int{strings.Count(s, logChanged), strings.Count(s, logUnchanged), strings.Count(s, logLoadError)}
	}
	before := count()
	a.cmd.Process.Signal(syscall.SIGUSR1)
	for i := 0; i < 1000; i++ {
		c := count()
		switch {
		case c[0] > before[0]:
			return "changed"
		case c[1] > before[1]:
			return "unchanged"
		case c[2] > before[2]:
			return "error"
		}
		time.Sleep(5 * time.Millisecond)
	}
	return "timeout"
}

// tasksOfNewJob schedules a job and returns the task names the API reports for it
func (a *appProc) tasksOfNewJob(pipeline string) (string, int) {
	code, b := a.api("POST", "/pipelines/schedule", `{"pipeline":"`+pipeline+`"}`)
	if code != 202 {
		return fmt.Sprintf("<schedule answered %d: %s>", code, head(b, 120)), code
	}
	m, _ := decodeJSON(b).(map[string]interface{})
	id, _ := m["jobId"].(string)
	_, db := a.api("GET", "/job/detail?id="+id, "")
	dm, _ := decodeJSON(db).(map[string]interface{})
	var names []string
	if ts, ok := dm["tasks"].([]interface{}); ok {
		for _, t := range ts {
			tm, _ := t.(map[string]interface{})
			n, _ := tm["name"].(string)
			names = append(names, n)
		}
	}
	sort.Strings(names)
	return strings.Join(names, ","), code
}

type appxResult struct {
	Caps            []string
	Cases, Distinct int
	Viol            []Violation
	Samples         []string
}

func (r *appxResult) add(prop, norm, msg string) {
	for _, v := range r.Viol {
		if v.Norm == norm && v.Property == prop {
			return
		}
	}
	r.Viol = append(r.Viol, Violation{Property: prop, Rule: "appx", Norm: norm, Msg: msg})
}

// ---------------------------------------------------------------------------------------------
// YAML rendering of a PipelineDef (only what the loader reads)

func yamlOfPipeline(name string, d definition.PipelineDef) string {
	var sb strings.Builder
	q := func(s string) string { return fmt.Sprintf("%q", s) }
	fmt.Fprintf(&sb, "  %s:\n", name)
	fmt.Fprintf(&sb, "    concurrency: %d\n", d.Concurrency)
	if d.QueueLimit != nil {
		fmt.Fprintf(&sb, "    queue_limit: %d\n", *d.QueueLimit)
	}
	if d.QueueStrategy == definition.QueueStrategyReplace {
		sb.WriteString("    queue_strategy: replace\n")
	} else {
		sb.WriteString("    queue_strategy: append\n")
	}
	fmt.Fprintf(&sb, "    start_delay: %s\n", d.StartDelay)
	fmt.Fprintf(&sb, "    continue_running_tasks_after_failure: %v\n", d.ContinueRunningTasksAfterFailure)
	fmt.Fprintf(&sb, "    retention_period: %s\n", d.RetentionPeriod)
	fmt.Fprintf(&sb, "    retention_count: %d\n", d.RetentionCount)
	writeMap := func(indent string, m map[string]string) {
		if m == nil {
			return
		}
		if len(m) == 0 {
			sb.WriteString(indent + "env: {}\n")
			return
		}
		sb.WriteString(indent + "env:\n")
		ks := make([]string, 0, len(m))
		for k := range m {
			ks = append(ks, k)
		}
		sort.Strings(ks)
		for _, k := range ks {
			fmt.Fprintf(&sb, "%s  %s: %s\n", indent, q(k), q(m[k]))
		}
	}
	writeMap("    ", d.Env)
	if d.Tasks != nil {
		if len(d.Tasks) == 0 {
			sb.WriteString("    tasks: {}\n")
		} else {
			sb.WriteString("    tasks:\n")
			ns := make([]string, 0, len(d.Tasks))
			for n := range d.Tasks {
				ns = append(ns, n)
			}
			sort.Strings(ns)
			for _, n := range ns {
				t := d.Tasks[n]
				fmt.Fprintf(&sb, "      %s:\n", q(n))
				list := func(key string, xs []string) {
					if xs == nil {
						return
					}
					if len(xs) == 0 {
						fmt.Fprintf(&sb, "        %s: []\n", key)
						return
					}
					fmt.Fprintf(&sb, "        %s:\n", key)
					for _, x := range xs {
						fmt.Fprintf(&sb, "          - %s\n", q(x))
					}
				}
				list("script", t.Script)
				list("depends_on", t.DependsOn)
				fmt.Fprintf(&sb, "        allow_failure: %v\n", t.AllowFailure)
				writeMap("        ", t.Env)
			}
		}
	}
	return sb.String()
}

func yamlOfDefs(p definition.PipelineDef) string {
	other := definition.PipelineDef{Concurrency: 1, Tasks: map[string]definition.TaskDef{"t": {Script: []string{"true"}}}}
	return "pipelines:\n" + yamlOfPipeline("p", p) + yamlOfPipeline("other", other)
}

// ---------------------------------------------------------------------------------------------
// reload histories (C16) and single-field edits (C17)

func runAppxHistories() appxResult {
	var res appxResult
	defs := map[string]definition.PipelineDef{
		"X": {Concurrency: 3, Tasks: map[string]definition.TaskDef{"xa": {Script: []string{"true", "echo x"}}}},
		"Y": {Concurrency: 3, Tasks: map[string]definition.TaskDef{"ya": {Script: []string{"true"}}, "yb": {Script: []string{"true"}, DependsOn: []string{"ya"}}}},
		// Z has the same size on disk as X (and the rewrites keep the mtime): X -> Z -> X are edits only the content shows
		"Z": {Concurrency: 3, Tasks: map[string]definition.TaskDef{"za": {Script: []string{"true"}}}},
		// W is X with the two script lines in the other order: same size, same task names, a different configuration
		"W": {Concurrency: 3, Tasks: map[string]definition.TaskDef{"xa": {Script: []string{"echo x", "true"}}}},
	}
	tasksOf := func(n string) string {
		var ns []string
		for t := range defs[n].Tasks {
			ns = append(ns, t)
		}
		sort.Strings(ns)
		return strings.Join(ns, ",")
	}
	names := []string{"X", "Y", "Z", "W"}
	var hist [][]string
	var gen func(cur []string)
	gen = func(cur []string) {
		if len(cur) > 1 {
			hist = append(hist, append([]string(nil), cur...))
		}
		if len(cur) == 4 {
			return
		}
		for _, n := range names {
			if n != cur[len(cur)-1] {
				gen(append(cur, n))
			}
		}
	}
	for _, n := range names {
		gen([]string{n})
	}
	// only maximal histories are run (their prefixes are checked on the way)
	for _, h := range hist {
		if len(h) != 4 {
			continue
		}
		a := startApp(map[string]string{"pipelines.yml": yamlOfDefs(defs[h[0]])})
		path := filepath.Join(a.dir, "defs", "pipelines.yml")
		for i := 1; i < len(h); i++ {
			rewriteKeepingMtime(path, yamlOfDefs(defs[h[i]]))
			got := a.reload()
			res.Cases++
			res.Distinct++
			hs := strings.Join(h[:i+1], " -> ")
			if got == "timeout" {
				res.Caps = append(res.Caps, "reload history "+hs+": no reload log line within 5s")
				break
			}
			if got != "changed" {
				res.add("C16", "reload-dropped:"+histClass(h[:i+1]), fmt.Sprintf("reload history %s: the last reload was classified as %q although the files changed", hs, got))
				res.add("C17", "reload-dropped:"+histClass(h[:i+1]), fmt.Sprintf("reload history %s: the edit was ignored by the reload (%q)", hs, got))
			}
			tasks, _ := a.tasksOfNewJob("p")
			if tasks != tasksOf(h[i]) {
				res.add("C16", "job-after-reload-uses-old-definition:"+histClass(h[:i+1]), fmt.Sprintf("reload history %s: a job accepted afterwards has tasks [%s], the definition on disk says [%s]", hs, tasks, tasksOf(h[i])))
			}
			// a reload without any edit is a no-op
			if i == len(h)-1 {
				res.Cases++
				if got := a.reload(); got != "unchanged" {
					res.add("C17", "noop-reload-reported-as:"+got, fmt.Sprintf("reload history %s, then a reload without any edit: classified as %q", hs, got))
				}
			}
		}
		a.stop()
	}
	res.Samples = append(res.Samples, fmt.Sprintf("%d reload histories of length 3 over the definitions {X, Y, Z} (adjacent ones differ), e.g. X -> Y -> X -> Z, on the real binary via SIGUSR1", res.Cases/4))
	return res
}

func histClass(h []string) string {
	// revisits an earlier definition?
	last := h[len(h)-1]
	for _, x := range h[:len(h)-1] {
		if x == last {
			if x == h[0] {
				return "back-to-startup-definition"
			}
			return "back-to-earlier-definition"
		}
	}
	return "new-definition"
}

// validDef reports whether the loader must accept the definition
func validDef(d definition.PipelineDef) bool {
	if d.Concurrency < 0 || (d.QueueLimit != nil && *d.QueueLimit < 0) || d.StartDelay < 0 {
		return false
	}
	if d.StartDelay > 0 && d.QueueLimit != nil && *d.QueueLimit == 0 {
		return false
	}
	for _, t := range d.Tasks {
		for _, dep := range t.DependsOn {
			if _, ok := d.Tasks[dep]; !ok {
				return false
			}
		}
	}
	return true
}

func normalizeDef(d definition.PipelineDef) definition.PipelineDef {
	if d.Concurrency == 0 {
		d.Concurrency = 1
	}
	return d
}

func runAppxFieldEdits(part, parts int) appxResult {
	var res appxResult
	base := definition.PipelineDef{Concurrency: 2, StartDelay: 0, Env: map[string]string{"E": "1"},
		Tasks: map[string]definition.TaskDef{"a": {Script: []string{"true"}, Env: map[string]string{"T": ""}}, "b": {Script: []string{"true"}, DependsOn: []string{"a"}}}}
	a := startApp(map[string]string{"pipelines.yml": yamlOfDefs(base)})
	defer a.stop()
	path := filepath.Join(a.dir, "defs", "pipelines.yml")
	cur := normalizeDef(base)
	apply := func(d definition.PipelineDef, what string) {
		rewriteKeepingMtime(path, yamlOfDefs(d))
		got := a.reload()
		res.Cases++
		want := "changed"
		nd := normalizeDef(d)
		switch {
		case !validDef(d):
			want = "error"
		case refEqual(reflect.ValueOf(cur), reflect.ValueOf(nd)):
			want = "unchanged"
		}
		if want != "unchanged" {
			res.Distinct++
		}
		if got == "timeout" {
			res.Caps = append(res.Caps, "edit "+what+": no reload log line within 5s")
			return
		}
		if got != want {
			res.add("C17", fmt.Sprintf("reload-gate:%s:%s-instead-of-%s", strings.SplitN(what, "=", 2)[0], got, want), fmt.Sprintf("edit %s followed by a reload: classified as %q, expected %q", what, got, want))
		}
		if got == "changed" {
			cur = nd
		}
	}
	pt := reflect.TypeOf(definition.PipelineDef{})
	tt := reflect.TypeOf(definition.TaskDef{})
	n := 0
	for fi := 0; fi < pt.NumField(); fi++ {
		f := pt.Field(fi)
		if f.Name == "SourcePath" || f.Name == "Tasks" {
			continue
		}
		vals := valuesFor(f.Type)
		for _, v1 := range vals {
			for _, v2 := range vals {
				n++
				if n%parts != part {
					continue
				}
				x, y := base, base
				reflect.ValueOf(&x).Elem().Field(fi).Set(v1)
				reflect.ValueOf(&y).Elem().Field(fi).Set(v2)
				if f.Name == "QueueStrategy" && (v1.Int() > 1 || v2.Int() > 1) {
					continue
				}
				apply(x, fmt.Sprintf("PipelineDef.%s=%s", f.Name, showVal(v1)))
				apply(y, fmt.Sprintf("PipelineDef.%s=%s (from %s)", f.Name, showVal(v2), showVal(v1)))
			}
		}
	}
	for fi := 0; fi < tt.NumField(); fi++ {
		f := tt.Field(fi)
		vals := valuesFor(f.Type)
		for _, v1 := range vals {
			for _, v2 := range vals {
				n++
				if n%parts != part {
					continue
				}
				mk := func(v reflect.Value) definition.PipelineDef {
					p := base
					p.Tasks = map[string]definition.TaskDef{}
					for k, t := range base.Tasks {
						p.Tasks[k] = t
					}
					t := p.Tasks["a"]
					reflect.ValueOf(&t).Elem().Field(fi).Set(v)
					p.Tasks["a"] = t
					return p
				}
				apply(mk(v1), fmt.Sprintf("TaskDef.%s=%s", f.Name, showVal(v1)))
				apply(mk(v2), fmt.Sprintf("TaskDef.%s=%s (from %s)", f.Name, showVal(v2), showVal(v1)))
			}
		}
	}
	res.Samples = append(res.Samples, fmt.Sprintf("%d edits of one field each (fields by reflection, value grids of C17), each followed by SIGUSR1 on the real binary; oracle: the reload is reported as changed / unchanged / error exactly as the reference says", res.Cases))
	return res
}

// ---------------------------------------------------------------------------------------------
// shutdown signals on the real binary (C11)

func runAppxSignals() appxResult {
	var res appxResult
	for _, sig := range []syscall.Signal{syscall.SIGINT, syscall.SIGTERM} {
		for _, state := range []string{"idle", "running", "running+waiting"} {
			marker := fmt.Sprintf("sx%d_%d_%s", os.Getpid(), int(sig), strings.ReplaceAll(state, "+", ""))
			p := definition.PipelineDef{Concurrency: 1, Tasks: map[string]definition.TaskDef{
				"a": {Script: []string{"sleep 1.5"}, Env: map[string]string{"VERIF_MARK": marker}},
				"b": {Script: []string{"true"}, DependsOn: []string{"a"}},
			}}
			a := startApp(map[string]string{"pipelines.yml": yamlOfDefs(p)})
			njobs := 0
			if state != "idle" {
				a.api("POST", "/pipelines/schedule", `{"pipeline":"p"}`)
				njobs++
				for i := 0; i < 1000 && len(procsWithMarker(marker)) == 0; i++ {
					time.Sleep(5 * time.Millisecond)
				}
			}
			if state == "running+waiting" {
				a.api("POST", "/pipelines/schedule", `{"pipeline":"p"}`)
				njobs++
			}
			t0 := time.Now()
			a.cmd.Process.Signal(sig)
			var exitErr error
			select {
			case exitErr = <-a.exited:
			case <-time.After(90 * time.Second):
				res.add("C11", "binary-does-not-exit:"+sig.String(), fmt.Sprintf("state %s: prunner did not exit within 90s after %v", state, sig))
				a.cmd.Process.Kill()
			}
			took := time.Since(t0)
			res.Cases++
			res.Distinct++
			desc := fmt.Sprintf("state %s, signal %v (exit after %v, err %v)", state, sig, took.Round(10*time.Millisecond), exitErr)
			if n := len(procsWithMarker(marker)); n > 0 {
				res.add("C11", "task-process-survives-exit:"+sig.String(), desc+": a task process is still alive after prunner exited")
			}
			// the store on disk
			ds, _ := store.NewJSONDataStore(filepath.Join(a.dir, "data"))
			data, err := ds.Load()
			if err != nil {
				res.add("C11", "store-unreadable-after-exit", desc+": "+err.Error())
			} else {
				if len(data.Jobs) != njobs {
					res.add("C11", "store-job-count-after-exit", fmt.Sprintf("%s: %d jobs accepted, the store has %d", desc, njobs, len(data.Jobs)))
				}
				sort.Slice(data.Jobs, func(i, j int) bool { return data.Jobs[i].Created.Before(data.Jobs[j].Created) })
				for i, j := range data.Jobs {
					if !j.Completed && !j.Canceled {
						res.add("C11", "non-terminal-job-in-store-after-exit:"+sig.String(), fmt.Sprintf("%s: job %d is stored neither completed nor canceled", desc, i+1))
					}
					if i == 0 && sig == syscall.SIGINT && (j.Canceled || !j.Completed) {
						res.add("C11", "graceful-signal-cancels-running-job", fmt.Sprintf("%s: the running job was not allowed to finish (completed=%v canceled=%v)", desc, j.Completed, j.Canceled))
					}
					if i == 0 && sig == syscall.SIGINT {
						for _, t := range j.Tasks {
							if t.Status != "done" {
								res.add("C11", "graceful-signal-skips-task", fmt.Sprintf("%s: task %s of the running job is stored as %q", desc, t.Name, t.Status))
							}
						}
					}
					if i == 0 && sig == syscall.SIGTERM && !j.Canceled {
						res.add("C11", "forced-signal-does-not-cancel", fmt.Sprintf("%s: the running job is stored as not canceled", desc))
					}
					if i == 1 && (!j.Canceled || j.Start != nil) {
						res.add("C11", "waiting-job-not-canceled-on-exit", fmt.Sprintf("%s: the waiting job is stored canceled=%v started=%v", desc, j.Canceled, j.Start != nil))
					}
				}
			}
			for _, pr := range procsWithMarker(marker) {
				var pid int
				fmt.Sscanf(pr, "%d:", &pid)
				syscall.Kill(pid, syscall.SIGKILL)
			}
			os.RemoveAll(a.dir)
			if len(res.Samples) < 2 {
				res.Samples = append(res.Samples, desc)
			}
		}
	}
	return res
}

// ---------------------------------------------------------------------------------------------
// the HTTP surface of the real process (C14): what is reachable over the socket without a token

func runAppxHTTP() appxResult {
	var res appxResult
	p := definition.PipelineDef{Concurrency: 1, Tasks: map[string]definition.TaskDef{"a": {Script: []string{"sleep 5"}}}}
	// every way the process can be told whether to expose the profiling routes: nothing, and the environment variable
	// with each spelling of a boolean
	for _, launch := range []struct {
		env       string
		profiling bool
	}{{"", false}, {"PRUNNER_ENABLE_PROFILING=false", false}, {"PRUNNER_ENABLE_PROFILING=0", false}, {"PRUNNER_ENABLE_PROFILING=F", false}, {"PRUNNER_ENABLE_PROFILING=true", true}, {"PRUNNER_ENABLE_PROFILING=1", true}} {
		profiling := launch.profiling
		extra := []string{}
		if launch.env != "" {
			extra = append(extra, launch.env)
		}
		a := startApp(map[string]string{"pipelines.yml": yamlOfDefs(p)}, extra...)
		get := func(method, path, tok string) (int, string) {
			req, _ := http.NewRequest(method, "http://"+a.addr+path, strings.NewReader(`{"pipeline":"p"}`))
			if tok != "" {
				req.Header.Set("Authorization", "Bearer "+tok)
			}
			c := http.Client{Timeout: 5 * time.Second}
			resp, err := c.Do(req)
			if err != nil {
				return 0, err.Error()
			}
			defer resp.Body.Close()
			b, _ := io.ReadAll(io.LimitReader(resp.Body, 4096))
			return resp.StatusCode, string(b)
		}
		for _, path := range []string{"/debug/pprof/", "/debug/pprof/cmdline", "/debug/pprof/heap", "/debug/pprof/goroutine?debug=1", "/debug/vars", "/debug/"} {
			code, body := get("GET", path, "")
			res.Cases++
			res.Distinct++
			if !profiling && code != 404 {
				res.add("C14", "debug-route-reachable-without-profiling:"+path, fmt.Sprintf("real process started with profiling off (%q): GET %s answers %d (%s...)", launch.env, path, code, head([]byte(body), 60)))
			}
		}
		for _, r := range [][2]string{{"GET", "/pipelines/"}, {"GET", "/pipelines/jobs"}, {"POST", "/pipelines/schedule"}, {"GET", "/job/detail?id=" + jobUUID(1).String()}, {"GET", "/job/logs?id=" + jobUUID(1).String() + "&task=a"}, {"POST", "/job/cancel?id=" + jobUUID(1).String()}} {
			for _, tok := range []string{"", "garbage", strings.TrimSuffix(validToken(), "x") + "y"} {
				code, body := get(r[0], r[1], tok)
				res.Cases++
				res.Distinct++
				if code != 401 {
					res.add("C14", "real-process-route-without-valid-token:"+r[1], fmt.Sprintf("real process (profiling=%v): %s %s with an invalid token answers %d (%s...)", profiling, r[0], r[1], code, head([]byte(body), 60)))
				}
			}
		}
		code, body := a.api("GET", "/pipelines/jobs", "")
		if code != 200 || !strings.Contains(string(body), "\"jobs\":[]") {
			res.add("C14", "real-process-state-changed-by-unauthenticated-request", fmt.Sprintf("after the unauthenticated requests the job list is %d %s", code, head(body, 120)))
		}
		a.stop()
	}
	res.Samples = append(res.Samples, "real binary with and without profiling: /debug/* paths and every API route with none / garbage / tampered token over the socket")
	return res
}

func runAppxUnit(u Unit) UnitResult {
	res := UnitResult{Name: u.Name, Exhaustive: true, Unbounded: true}
	if _, err := os.Stat(prunnerBin); err != nil {
		panic(InfraError{"the prunner binary was not built: " + err.Error()})
	}
	var r appxResult
	switch {
	case strings.HasPrefix(u.Name, "appx/reload-histories"):
		r = runAppxHistories()
	case strings.HasPrefix(u.Name, "appx/field-edits"):
		r = runAppxFieldEdits(u.Index, 8)
	case strings.HasPrefix(u.Name, "appx/signals"):
		r = runAppxSignals()
	case strings.HasPrefix(u.Name, "appx/http-surface"):
		r = runAppxHTTP()
	case strings.HasPrefix(u.Name, "appx/limit-reloads"):
		r = runAppxLimitsAndEnv("C01")
	case strings.HasPrefix(u.Name, "appx/env-reloads"):
		r = runAppxLimitsAndEnv(u.Prop)
	}
	res.Execs, res.States, res.Transitions, res.Outcomes = r.Cases, r.Cases, r.Cases, r.Distinct
	res.Samples = r.Samples
	for _, v := range r.Viol {
		res.Viol = append(res.Viol, FoundViolation{Violation: v, Scenario: u.Name})
	}
	if len(r.Caps) > 0 {
		res.Exhaustive = false
		res.Caps = append(res.Caps, r.Caps...)
	}
	return res
}

// runAppxLimitsAndEnv: the real binary under reloads of the concurrency limit (C01) and of the pipeline environment
// (C18, C16), through definition files and SIGUSR1 - the reload gate and the task-runner factory of app.go are part of
// what a user runs.
func runAppxLimitsAndEnv(prop string) appxResult {
	var res appxResult
	lim := func(c int) string {
		return yamlOfDefs(definition.PipelineDef{Concurrency: c, Tasks: map[string]definition.TaskDef{"a": {Script: []string{"sleep 20"}}}})
	}
	running := func(a *appProc) (int, []string) {
		_, b := a.api("GET", "/pipelines/jobs", "")
		m, _ := decodeJSON(b).(map[string]interface{})
		n := 0
		var ids []string
		if js, ok := m["jobs"].([]interface{}); ok {
			for _, j := range js {
				jm, _ := j.(map[string]interface{})
				id, _ := jm["id"].(string)
				comp, _ := jm["completed"].(bool)
				canc, _ := jm["canceled"].(bool)
				if !comp && !canc {
					ids = append(ids, id)
					if jm["start"] != nil {
						n++
					}
				}
			}
		}
		return n, ids
	}
	if prop == "C01" {
		// every history of limits up to three reloads over {1, 2, 3} with adjacent ones different
		var hist [][]int
		var gen func(cur []int)
		gen = func(cur []int) {
			if len(cur) == 4 {
				hist = append(hist, append([]int(nil), cur...))
				return
			}
			for _, c := range []int{1, 2, 3} {
				if c != cur[len(cur)-1] {
					gen(append(cur, c))
				}
			}
		}
		for _, c := range []int{1, 2, 3} {
			gen([]int{c})
		}
		for _, h := range hist {
			a := startApp(map[string]string{"pipelines.yml": lim(h[0])})
			path := filepath.Join(a.dir, "defs", "pipelines.yml")
			ok := true
			for i := 1; i < len(h) && ok; i++ {
				rewriteKeepingMtime(path, lim(h[i]))
				if got := a.reload(); got == "timeout" {
					res.Caps = append(res.Caps, fmt.Sprintf("limit history %v: no reload log line within 5s", h[:i+1]))
					ok = false
					break
				}
				// requests after the reload: the limit on disk governs how many of them run
				for k := 0; k < 4; k++ {
					a.api("POST", "/pipelines/schedule", `{"pipeline":"p"}`)
				}
				n, ids := running(a)
				res.Cases++
				res.Distinct++
				if n > h[i] {
					res.add("C01", fmt.Sprintf("limit-after-reload-exceeded:%d-jobs-under-limit-%d", n, h[i]), fmt.Sprintf("limit history %v (definition files + SIGUSR1): %d jobs of the pipeline run at once, the limit on disk is %d", h[:i+1], n, h[i]))
				}
				for _, id := range ids {
					a.api("POST", "/job/cancel?id="+id, "")
				}
				for w := 0; w < 400; w++ {
					if _, left := running(a); len(left) == 0 {
						break
					}
					time.Sleep(10 * time.Millisecond)
				}
			}
			a.stop()
		}
		res.Samples = append(res.Samples, fmt.Sprintf("%d histories of three reloads over the limits {1,2,3} on the real binary; after each reload four requests, running jobs counted through the API", len(hist)))
		return res
	}
	// C18 / C16: environment across reloads, with a job that waits during the reload
	envDef := func(v string) string {
		return yamlOfDefs(definition.PipelineDef{Concurrency: 1, Env: map[string]string{"VERIF_TARGET": v}, Tasks: map[string]definition.TaskDef{"a": {Script: []string{"sleep 0.3", `printf 'T=%s;' "$VERIF_TARGET"`}}}})
	}
	waitJob := func(a *appProc, id string) bool {
		for w := 0; w < 3000; w++ {
			_, b := a.api("GET", "/job/detail?id="+id, "")
			m, _ := decodeJSON(b).(map[string]interface{})
			if c, _ := m["completed"].(bool); c {
				return true
			}
			if c, _ := m["canceled"].(bool); c {
				return true
			}
			time.Sleep(10 * time.Millisecond)
		}
		return false
	}
	sched := func(a *appProc) string {
		_, b := a.api("POST", "/pipelines/schedule", `{"pipeline":"p"}`)
		m, _ := decodeJSON(b).(map[string]interface{})
		id, _ := m["jobId"].(string)
		return id
	}
	out := func(a *appProc, id string) string {
		_, b := a.api("GET", "/job/logs?id="+id+"&task=a", "")
		m, _ := decodeJSON(b).(map[string]interface{})
		s, _ := m["stdout"].(string)
		return s
	}
	vals := []string{"one", "two", "three"}
	for _, h := range [][]int{{0, 1}, {0, 1, 0}, {0, 1, 2}, {1, 0, 1}} {
		a := startApp(map[string]string{"pipelines.yml": envDef(vals[h[0]])})
		path := filepath.Join(a.dir, "defs", "pipelines.yml")
		for i := 1; i < len(h); i++ {
			// a job runs, another waits; the definition changes while it waits
			j1, j2 := sched(a), sched(a)
			rewriteKeepingMtime(path, envDef(vals[h[i]]))
			if got := a.reload(); got == "timeout" {
				res.Caps = append(res.Caps, "env history: no reload log line within 5s")
				break
			}
			j3 := sched(a) // accepted after the reload, runs after the two
			if !waitJob(a, j1) || !waitJob(a, j2) || !waitJob(a, j3) {
				res.Caps = append(res.Caps, "env history: jobs did not finish within 30s")
				break
			}
			j4 := sched(a) // accepted when nothing of the old definition is left
			if !waitJob(a, j4) {
				res.Caps = append(res.Caps, "env history: job did not finish within 30s")
				break
			}
			res.Cases += 4
			res.Distinct += 4
			old, cur := "T="+vals[h[i-1]]+";", "T="+vals[h[i]]+";"
			hs := fmt.Sprint(h[:i+1])
			for k, c := range []struct{ id, want, what string }{{j1, old, "ran during the reload"}, {j2, old, "waited during the reload"}, {j3, cur, "was accepted after the reload, behind a job of the old definition"}, {j4, cur, "was accepted after the reload"}} {
				if got := out(a, c.id); got != c.want {
					p := "C18"
					if k < 2 {
						p = "C16"
					}
					res.add(p, fmt.Sprintf("env-across-reload:job%d", k+1), fmt.Sprintf("environment history %s on the real binary: the job that %s printed %q, its definition says %q", hs, c.what, got, c.want))
				}
			}
		}
		a.stop()
	}
	res.Samples = append(res.Samples, "pipeline-level environment across reloads on the real binary: four histories over three values, per reload a running, a waiting and two later jobs")
	return res
}
