package main

// procx.go (C18, C19, C20): the real TaskRunner with real processes, created exactly as app.go
// does, driven over exhaustive input grammars. The interleaving of the processes is the
// kernel's and is NOT owned by the checker (level: exploration).

import (
	"bytes"
	"context"
	"fmt"
	"io"
	"net/http"
	"net/url"
	"os"
	"os/exec"
	"path/filepath"
	"regexp"
	"sort"
	"strings"
	"sync"
	"syscall"
	"text/template"
	"time"

	"github.com/go-chi/jwtauth/v5"
	"github.com/gofrs/uuid"
	"github.com/taskctl/taskctl/pkg/variables"

	"github.com/Flowpack/prunner"
	"github.com/Flowpack/prunner/definition"
	"github.com/Flowpack/prunner/server"
	"github.com/Flowpack/prunner/taskctl"
	"github.com/Flowpack/prunner/zverif/vsched"
)

type procWorld struct {
	r      *prunner.PipelineRunner
	out    *taskctl.FileOutputStore
	dir    string
	h      http.Handler
	cancel context.CancelFunc
}

func newProcWorld(defs *definition.PipelinesDef, killTimeout time.Duration) *procWorld {
	dir, err := os.MkdirTemp("", "verif-procx-")
	if err != nil {
		panic(err)
	}
	out, err := taskctl.NewOutputStore(filepath.Join(dir, "logs"))
	if err != nil {
		panic(err)
	}
	ctx, cancel := context.WithCancel(context.Background())
	pw := &procWorld{out: out, dir: dir, cancel: cancel}
	// the closure of app.go: appAction
	r, err := prunner.NewPipelineRunner(ctx, defs, func(j *prunner.PipelineJob) taskctl.Runner {
		opts := []taskctl.Opts{taskctl.WithEnv(variables.FromMap(j.Env))}
		if killTimeout > 0 {
			opts = append(opts, taskctl.WithKillTimeout(killTimeout))
		}
		taskRunner, _ := taskctl.NewTaskRunner(out, opts...)
		taskRunner.Stdout = io.Discard
		taskRunner.Stderr = io.Discard
		return taskRunner
	}, &memStore{}, out)
	if err != nil {
		panic(err)
	}
	pw.r = r
	noLog := func(next http.Handler) http.Handler { return next }
	pw.h = server.NewServer(r, out, noLog, jwtauth.New("HS256", []byte(jwtSecret), nil), false)
	return pw
}

func (pw *procWorld) close() {
	pw.cancel()
	os.RemoveAll(pw.dir)
}

func (pw *procWorld) wait(id uuid.UUID, timeout time.Duration) (prunner.VerifJob, bool) {
	deadline := time.Now().Add(timeout)
	var v prunner.VerifJob
	for time.Now().Before(deadline) {
		done := false
		_ = pw.r.ReadJob(id, func(j *prunner.PipelineJob) {
			v = prunner.VerifJobOf(j)
			done = j.Completed || j.Canceled
		})
		if done {
			return v, true
		}
		time.Sleep(2 * time.Millisecond)
	}
	return v, false
}

func (pw *procWorld) output(id uuid.UUID, task, stream string) ([]byte, error) {
	rd, err := pw.out.Reader(id.String(), task, stream)
	if err != nil {
		return nil, err
	}
	defer rd.Close()
	return io.ReadAll(rd)
}

type procxResult struct {
	Caps            []string // inconclusive cases (a wall-clock wait ran out): never a verdict
	Cases, Distinct int
	Viol            []Violation
	Samples         []string
	prop            string
}

func (r *procxResult) inconclusive(msg string) {
	if len(r.Caps) < 10 {
		r.Caps = append(r.Caps, msg)
	}
}

func (r *procxResult) add(norm, msg string) {
	for _, v := range r.Viol {
		if v.Norm == norm {
			return
		}
	}
	r.Viol = append(r.Viol, Violation{Property: r.prop, Rule: "procx", Norm: norm, Msg: msg})
}

// ---------------------------------------------------------------------------------------------
// C18

var envValues = []struct{ n, v string }{
	{"plain", "plain"}, {"space", "with space  two"}, {"squote", "it's"}, {"dquote", `say "hi"`}, {"newline", "line1\nline2"},
	{"dollar", "$HOME ${X} $(id)"}, {"equals", "a=b=c"}, {"utf8", "üñí→✓"}, {"backslash", `back\slash\n`}, {"glob", "* ?[a]"},
}

var frameRe = regexp.MustCompile(`(?s)([A-Z0-9_]+)=<<(.*?)>>;`)

func parseFrames(b []byte) map[string]string {
	res := map[string]string{}
	for _, m := range frameRe.FindAllSubmatch(b, -1) {
		res[string(m[1])] = string(m[2])
	}
	return res
}

func runC18() procxResult {
	res := procxResult{prop: "C18"}
	levels := []string{"process", "pipeline", "task"}
	type nameSpec struct {
		name   string
		set    [3]bool
		val    [3]string
		expect [2]string // per job
	}
	// two jobs (pipelines p1, p2) run the same script at once with different pipeline / task values
	var names []string
	pipeEnv := [2]map[string]string{{}, {}}
	taskEnv := [2]map[string]string{{}, {}}
	expect := [2]map[string]string{{}, {}}
	idx := 0
	for sub := 1; sub < 8; sub++ {
		for _, ev := range envValues {
			name := fmt.Sprintf("VX_%d_%s", sub, strings.ToUpper(ev.n))
			names = append(names, name)
			for job := 0; job < 2; job++ {
				want := ""
				for l := 0; l < 3; l++ {
					if sub&(1<<uint(l)) == 0 {
						continue
					}
					v := fmt.Sprintf("%s%d:%s", levels[l][:2], job, ev.v)
					switch l {
					case 0:
						v = "pr:" + ev.v // the process environment is shared by both jobs
						os.Setenv(name, v)
					case 1:
						pipeEnv[job][name] = v
					case 2:
						taskEnv[job][name] = v
					}
					want = v // later (higher) level wins
				}
				expect[job][name] = want
			}
			idx++
		}
	}
	// a level that defines the EMPTY value still wins over lower levels
	for i, c := range []struct{ pr, pi, ta string }{{"x", "", "\x00"}, {"x", "y", ""}, {"\x00", "", "\x00"}, {"x", "\x00", ""}} {
		name := fmt.Sprintf("VE_%d", i)
		names = append(names, name)
		want := "\x00"
		if c.pr != "\x00" {
			os.Setenv(name, c.pr)
			want = c.pr
		}
		for job := 0; job < 2; job++ {
			w := want
			if c.pi != "\x00" {
				pipeEnv[job][name] = c.pi
				w = c.pi
			}
			if c.ta != "\x00" {
				taskEnv[job][name] = c.ta
				w = c.ta
			}
			expect[job][name] = w
		}
	}
	// names that are proper prefixes of one another, defined at different levels, must stay independent
	os.Setenv("VP_TOKEN_FILE", "pr:/run/secrets/token")
	os.Setenv("VP_NODE_ENV", "pr:production")
	for job := 0; job < 2; job++ {
		pipeEnv[job]["VP_TOKEN"] = fmt.Sprintf("pi%d:pipeline-token", job)
		taskEnv[job]["VP_TOK"] = fmt.Sprintf("ta%d:task-tok", job)
		taskEnv[job]["VP_NODE"] = fmt.Sprintf("ta%d:task-node", job)
		pipeEnv[job]["VP_NODE_ENV_X"] = fmt.Sprintf("pi%d:longer", job)
		expect[job]["VP_TOKEN_FILE"] = "pr:/run/secrets/token"
		expect[job]["VP_NODE_ENV"] = "pr:production"
		expect[job]["VP_TOKEN"] = pipeEnv[job]["VP_TOKEN"]
		expect[job]["VP_TOK"] = taskEnv[job]["VP_TOK"]
		expect[job]["VP_NODE"] = taskEnv[job]["VP_NODE"]
		expect[job]["VP_NODE_ENV_X"] = pipeEnv[job]["VP_NODE_ENV_X"]
	}
	names = append(names, "VP_TOKEN_FILE", "VP_NODE_ENV", "VP_TOKEN", "VP_TOK", "VP_NODE", "VP_NODE_ENV_X")
	// a name the upstream task runner has a convention for (it builds an "ARGS" variable): like every other name it
	// carries the task-, else pipeline-, else process-level value
	os.Setenv("ARGS", "pr:--process-args")
	pipeEnv[0]["ARGS"] = "pi0:--pipeline-args"
	expect[0]["ARGS"] = pipeEnv[0]["ARGS"]
	expect[1]["ARGS"] = "pr:--process-args"
	names = append(names, "ARGS")
	// PATH is an environment variable like any other: the command a script names is the one the job's own PATH finds
	toolDir, err := os.MkdirTemp("", "verif-c18-tools-")
	if err != nil {
		panic(err)
	}
	defer os.RemoveAll(toolDir)
	for i, tag := range []string{"A", "B"} {
		d := filepath.Join(toolDir, tag)
		os.MkdirAll(d, 0o755)
		os.WriteFile(filepath.Join(d, "verif-tool"), []byte("#!/bin/sh\nprintf 'I_TOOL=<<"+tag+">>;'\n"), 0o755)
		if i == 0 {
			pipeEnv[0]["PATH"] = d + ":" + os.Getenv("PATH")
		} else {
			taskEnv[1]["PATH"] = d + ":" + os.Getenv("PATH")
		}
	}
	var script []string
	script = append(script, "verif-tool", "verif-tool")
	for _, n := range names {
		script = append(script, fmt.Sprintf(`printf '%s=<<%%s>>;' "${%s-UNSET}"`, "I_"+n, n))
	}
	for _, n := range names {
		// what a child process receives
		script = append(script, fmt.Sprintf(`printf 'C_%s=<<'; printenv %s || printf 'UNSET\n'; printf '>>;'`, n, n))
	}
	// a second task without task env: nothing set for task "t" may be visible here
	var script2 []string
	for _, n := range names {
		script2 = append(script2, fmt.Sprintf(`printf '%s=<<%%s>>;' "${%s-UNSET}"`, "I_"+n, n))
	}
	script2 = append(script2, `printf 'I_TASK_NAME=<<%s>>;' "$TASK_NAME"`)
	mkPipe := func(job int) PipeCfg {
		return PipeCfg{Conc: 2, QL: -1, Graph: map[string][]string{"t": nil, "u": nil}, Env: pipeEnv[job], TaskEnv: map[string]map[string]string{"t": taskEnv[job]},
			Script: map[string][]string{"t": script, "u": script2}}
	}
	tplScript := []string{"cat <<'VERIF_EOF_S'\nI_S=<<{{ .s }}>>;\nVERIF_EOF_S", `printf 'I_N=<<%s>>;' '{{ .n }}'`, `printf 'I_L=<<%s>>;' '{{ .l }}'`, `printf 'I_M=<<%s>>;' '{{ .m.k }}'`, `printf 'I_F=<<%s>>;' '{{ .f }}'`}
	// the same templates in a pipeline whose pipeline- and task-level ENVIRONMENT uses the very names of the job's
	// variables (and the name reserved for the job identity): a script is rendered with the variables of its job, the
	// environment is what the commands see - the two name spaces do not leak into each other
	const bogusJob = "00000000-0000-4000-8000-00000000dead"
	tplEnvScript := append(append([]string{}, tplScript...), `printf 'I_ENVS=<<%s>>;' "$s"`, `printf 'I_ENVF=<<%s>>;' "$f"`)
	defs := mkDefs(map[string]PipeCfg{"p1": mkPipe(0), "p2": mkPipe(1),
		"tpl": {Conc: 2, QL: -1, Graph: graphOne, Script: map[string][]string{"a": tplScript}},
		"tplenv": {Conc: 2, QL: -1, Graph: graphOne, Script: map[string][]string{"a": tplEnvScript}, Env: map[string]string{"f": "ENV-F", "l": "ENV-L"},
			TaskEnv: map[string]map[string]string{"a": {"s": "ENV-S", "n": "ENV-N", "m": "ENV-M", taskctl.JobIDVariableName: bogusJob}}}})
	pw := newProcWorld(defs, 0)
	defer pw.close()
	j1, err1 := pw.r.ScheduleAsync("p1", prunner.ScheduleOpts{})
	j2, err2 := pw.r.ScheduleAsync("p2", prunner.ScheduleOpts{})
	if err1 != nil || err2 != nil {
		panic(fmt.Sprint(err1, err2))
	}
	// (string values with the characters an HTML-aware template engine would escape)
	varsA := map[string]interface{}{"s": "a&b<c>d\"e+f=g 'h' https://x.example/?q=1&r=2", "n": 42, "l": []interface{}{"x", "y"}, "m": map[string]interface{}{"k": "deep a"}, "f": 1.5}
	varsB := map[string]interface{}{"s": "STRING B", "n": 7000000, "l": []interface{}{"z"}, "m": map[string]interface{}{"k": "deep b"}, "f": 0.1234567891}
	t1, _ := pw.r.ScheduleAsync("tpl", prunner.ScheduleOpts{Variables: varsA})
	t2, _ := pw.r.ScheduleAsync("tpl", prunner.ScheduleOpts{Variables: varsB})
	te1, _ := pw.r.ScheduleAsync("tplenv", prunner.ScheduleOpts{Variables: varsA})
	bad, errBad := pw.r.ScheduleAsync("tpl", prunner.ScheduleOpts{Variables: map[string]interface{}{"s": "x", taskctl.JobIDVariableName: j1.ID.String()}})
	for job, j := range []*prunner.PipelineJob{j1, j2} {
		v, ok := pw.wait(j.ID, 60*time.Second)
		if !ok || v.LastError != "" {
			if !ok {
				res.inconclusive(fmt.Sprintf("environment job %d did not finish within 60s", job))
			} else {
				res.add("job-did-not-finish", fmt.Sprintf("environment job %d did not finish cleanly: err=%q tasks=%+v", job, v.LastError, v.Tasks))
			}
			continue
		}
		outT, _ := pw.output(j.ID, "t", "stdout")
		outU, _ := pw.output(j.ID, "u", "stdout")
		ft, fu := parseFrames(outT), parseFrames(outU)
		res.Cases++
		res.Distinct++
		if want := []string{"A", "B"}[job]; ft["I_TOOL"] != want {
			res.add("env-path-resolution", fmt.Sprintf("job %d: the command verif-tool exists in two directories and the job's own PATH (set at %s level) names directory %s first, but the one that ran printed %q", job, []string{"pipeline", "task"}[job], want, ft["I_TOOL"]))
		}
		for _, n := range names {
			want := expect[job][n]
			wantI, wantC := want, want+"\n"
			if want == "\x00" {
				wantI, wantC = "UNSET", "UNSET\n"
			}
			res.Cases += 2
			res.Distinct += 2
			if got := ft["I_"+n]; got != wantI {
				res.add("env-interpreter:"+classOfName(n), fmt.Sprintf("job %d, variable %s, as expanded by the interpreter: got %q, want %q (task > pipeline > process)", job, n, got, wantI))
			}
			if got := ft["C_"+n]; got != wantC {
				res.add("env-child:"+classOfName(n), fmt.Sprintf("job %d, variable %s, as received by a child process: got %q, want %q (task > pipeline > process)", job, n, got, wantC))
			}
			// task u has no task-level env: pipeline level, else process level
			wantU := "\x00"
			if pv, ok := os.LookupEnv(n); ok {
				wantU = pv
			}
			if v, ok := pipeEnv[job][n]; ok {
				wantU = v
			}
			if wantU == "\x00" {
				wantU = "UNSET"
			}
			res.Cases++
			if got := fu["I_"+n]; got != wantU {
				res.add("env-task-isolation:"+classOfName(n), fmt.Sprintf("job %d, variable %s in a task WITHOUT task-level env: got %q, want %q (task env of another task or job must not leak)", job, n, got, wantU))
			}
		}
		if fu["I_TASK_NAME"] != "u" {
			res.add("task-name", fmt.Sprintf("TASK_NAME of task u is %q", fu["I_TASK_NAME"]))
		}
	}
	for k, tj := range []*prunner.PipelineJob{t1, t2} {
		vars := []map[string]interface{}{varsA, varsB}[k]
		v, ok := pw.wait(tj.ID, 30*time.Second)
		if !ok || v.LastError != "" {
			if !ok {
				res.inconclusive("template job did not finish within 30s")
			} else {
				res.add("template-job-did-not-finish", fmt.Sprintf("template job did not finish cleanly: %q", v.LastError))
			}
			continue
		}
		out, _ := pw.output(tj.ID, "a", "stdout")
		f := parseFrames(out)
		for key, expr := range map[string]string{"I_S": "{{ .s }}", "I_N": "{{ .n }}", "I_L": "{{ .l }}", "I_M": "{{ .m.k }}", "I_F": "{{ .f }}"} {
			var buf bytes.Buffer
			template.Must(template.New("x").Parse(expr)).Execute(&buf, vars)
			res.Cases++
			res.Distinct++
			if f[key] != buf.String() {
				res.add("template:"+key, fmt.Sprintf("script %s of job with variables %v rendered %q, want %q (exactly the job's own variables)", expr, vars, f[key], buf.String()))
			}
		}
	}
	if te1 != nil {
		v, ok := pw.wait(te1.ID, 30*time.Second)
		if !ok {
			res.inconclusive("template job with colliding env names did not finish within 30s")
		} else if v.LastError != "" || !v.Completed {
			res.add("template-env-collision:job", fmt.Sprintf("a job whose definition uses the names of its variables as environment names does not finish cleanly: %q", v.LastError))
		} else {
			out, err := pw.output(te1.ID, "a", "stdout")
			res.Cases++
			if err != nil {
				res.add("template-env-collision:logs", fmt.Sprintf("the output of a task whose definition sets an environment variable named %s is not stored under its own job: %v", taskctl.JobIDVariableName, err))
			}
			if _, err2 := pw.output(uuid.FromStringOrNil(bogusJob), "a", "stdout"); err2 == nil {
				res.add("template-env-collision:foreign-job", fmt.Sprintf("an environment variable named %s redirected the task's output to the job id it names", taskctl.JobIDVariableName))
			}
			f := parseFrames(out)
			for key, expr := range map[string]string{"I_S": "{{ .s }}", "I_N": "{{ .n }}", "I_L": "{{ .l }}", "I_M": "{{ .m.k }}", "I_F": "{{ .f }}"} {
				var buf bytes.Buffer
				template.Must(template.New("x").Parse(expr)).Execute(&buf, varsA)
				res.Cases++
				res.Distinct++
				if f[key] != buf.String() {
					res.add("template-env-collision:"+key, fmt.Sprintf("script %s rendered %q, want %q: the job's variable, not the environment variable of the same name", expr, f[key], buf.String()))
				}
			}
			if f["I_ENVS"] != "ENV-S" || f["I_ENVF"] != "ENV-F" {
				res.add("template-env-collision:env", fmt.Sprintf("the commands see $s=%q $f=%q, want the task- / pipeline-level values ENV-S / ENV-F (job variables are not environment)", f["I_ENVS"], f["I_ENVF"]))
			}
		}
	}
	// a job that waits while the definition gains a pipeline-level env keeps the environment it was accepted with
	{
		lateOld := PipeCfg{Conc: 1, QL: -1, Graph: graphOne, Script: map[string][]string{"a": {"sleep 0.3", `printf 'I_LATE=<<%s>>;' "${VL_LATE-UNSET}"`}}}
		lateNew := lateOld
		lateNew.Env = map[string]string{"VL_LATE": "from the NEW definition"}
		pw2 := newProcWorld(mkDefs(map[string]PipeCfg{"late": lateOld}), 0)
		l1, _ := pw2.r.ScheduleAsync("late", prunner.ScheduleOpts{})
		l2, _ := pw2.r.ScheduleAsync("late", prunner.ScheduleOpts{}) // queued behind l1
		pw2.r.ReplaceDefinitions(mkDefs(map[string]PipeCfg{"late": lateNew}))
		l3, _ := pw2.r.ScheduleAsync("late", prunner.ScheduleOpts{}) // accepted after the reload
		for i, lj := range []*prunner.PipelineJob{l1, l2, l3} {
			if lj == nil {
				continue
			}
			pw2.wait(lj.ID, 30*time.Second)
			out, _ := pw2.output(lj.ID, "a", "stdout")
			want := "UNSET"
			if i == 2 {
				want = "from the NEW definition"
			}
			res.Cases++
			res.Distinct++
			if got := parseFrames(out)["I_LATE"]; got != want {
				res.add(fmt.Sprintf("env-across-reload:job%d", i+1), fmt.Sprintf("job %d of a pipeline whose definition gained a pipeline-level variable while the job %s: the task sees %q, want %q", i+1, []string{"ran", "waited", "was not yet accepted"}[i], got, want))
			}
		}
		pw2.close()
	}
	// fan-out: many parallel tasks of many jobs, each with its own task-level value
	{
		const nJobs, nTasks = 12, 16
		g := map[string][]string{}
		sc := map[string][]string{}
		te := map[string]map[string]string{}
		for t := 0; t < nTasks; t++ {
			n := fmt.Sprintf("t%02d", t)
			g[n] = nil
			sc[n] = []string{`printf 'I_FAN=<<%s|%s>>;' "$TASK_NAME" "$VF_TASK"`, `printf 'C_FAN=<<'; printenv VF_TASK; printf '>>;'`}
			te[n] = map[string]string{"VF_TASK": "value-of-" + n}
		}
		pw3 := newProcWorld(mkDefs(map[string]PipeCfg{"fan": {Conc: nJobs, QL: -1, Graph: g, Script: sc, TaskEnv: te}}), 0)
		var fj []*prunner.PipelineJob
		for i := 0; i < nJobs; i++ {
			j, _ := pw3.r.ScheduleAsync("fan", prunner.ScheduleOpts{})
			fj = append(fj, j)
		}
		for _, j := range fj {
			pw3.wait(j.ID, 60*time.Second)
			for t := 0; t < nTasks; t++ {
				n := fmt.Sprintf("t%02d", t)
				out, _ := pw3.output(j.ID, n, "stdout")
				f := parseFrames(out)
				res.Cases++
				if f["I_FAN"] != n+"|value-of-"+n || f["C_FAN"] != "value-of-"+n+"\n" {
					res.add("env-parallel-tasks", fmt.Sprintf("parallel task %s sees TASK_NAME|VF_TASK = %q and its child process VF_TASK = %q (want its own values)", n, f["I_FAN"], f["C_FAN"]))
				}
			}
		}
		pw3.close()
	}
	// reserved name: refused
	res.Cases++
	if errBad == nil {
		v, _ := pw.wait(bad.ID, 10*time.Second)
		ran := false
		for _, t := range v.Tasks {
			if t.HasStart {
				ran = true
			}
		}
		if _, err := pw.output(bad.ID, "a", "stdout"); err == nil {
			ran = true
		}
		if ran || !v.Canceled || v.LastError == "" {
			res.add("reserved-variable-accepted", fmt.Sprintf("a job carrying the reserved variable %s ran a task or was not refused: canceled=%v err=%q ran=%v", taskctl.JobIDVariableName, v.Canceled, v.LastError, ran))
		}
		// and the job it pointed at is unaffected
		if v1, _ := pw.wait(j1.ID, time.Second); !v1.Completed || v1.Canceled {
			res.add("reserved-variable-affects-other-job", "the job named by the reserved variable was affected")
		}
	}
	res.Samples = append(res.Samples, fmt.Sprintf("%d names x 2 concurrent jobs x {interpreter expansion, child process}; e.g. %s: levels %03b, value class %s", len(names), names[12], 2, envValues[2].n))
	return res
}

func classOfName(n string) string {
	p := strings.Split(n, "_")
	if len(p) >= 3 {
		return "levels=" + p[1] + ",value=" + strings.ToLower(p[2])
	}
	return n
}

// ---------------------------------------------------------------------------------------------
// C19

type chunkSpec struct {
	stderr  bool
	size    int
	newline bool
	exec    bool
	fail    bool // the command exits non-zero after it has written its output
}

func (c chunkSpec) command(letter byte) string {
	var cmd string
	switch {
	case c.size == 0:
		cmd = "printf ''"
		if c.exec {
			cmd = "head -c 0 /dev/zero"
		}
	case c.exec:
		cmd = fmt.Sprintf("head -c %d /dev/zero | tr '\\0' '%c'", c.size, letter)
	default:
		cmd = fmt.Sprintf("printf '%%s' '%s'", strings.Repeat(string(letter), c.size))
	}
	if c.newline {
		cmd = "{ " + cmd + "; printf '\\n'; }"
	}
	if c.stderr {
		cmd += " >&2"
	}
	if c.fail {
		cmd = "{ " + cmd + "; }; exit 3"
	}
	return cmd
}

func (c chunkSpec) expect(letter byte) []byte {
	b := bytes.Repeat([]byte{letter}, c.size)
	if c.newline {
		b = append(b, '\n')
	}
	return b
}

func c19TaskSpecs(tier string) [][]chunkSpec {
	sizes := []int{0, 1, 4095, 4096, 4097, 70001}
	if tier == "thorough" {
		sizes = append(sizes, 1<<20)
	}
	var tasks [][]chunkSpec
	for _, se := range []bool{false, true} {
		for _, sz := range sizes {
			for _, nl := range []bool{false, true} {
				for _, ex := range []bool{false, true} {
					if !ex && sz > 5000 {
						continue // a command line of that length is not a realistic builtin invocation
					}
					tasks = append(tasks, []chunkSpec{{se, sz, nl, ex, false}})
				}
			}
		}
	}
	// multi-megabyte outputs (one unterminated line on stdout, newline-terminated on stderr) also in the quick tier
	tasks = append(tasks, []chunkSpec{{false, 1<<20 + 1, false, true, false}}, []chunkSpec{{true, 3 << 20, true, true, false}})
	// two and three commands per task over a reduced alphabet
	small := []chunkSpec{{false, 1, false, false, false}, {true, 1, true, false, false}, {false, 4097, false, true, false}, {true, 4096, true, true, false}}
	for _, a := range small {
		for _, b := range small {
			tasks = append(tasks, []chunkSpec{a, b})
		}
	}
	for _, a := range small {
		tasks = append(tasks, []chunkSpec{a, small[2], small[1]}, []chunkSpec{small[0], a, small[3]})
	}
	// commands that fail after writing: the output written so far must be there, whether the task is
	// allow_failure (the following commands still run) or not (the task stops)
	f1 := chunkSpec{false, 5, true, false, true}
	f2 := chunkSpec{true, 4097, false, true, true}
	tasks = append(tasks, []chunkSpec{small[0], f1}, []chunkSpec{f1, small[0]}, []chunkSpec{small[1], f2}, []chunkSpec{small[2], f2, small[0]}, []chunkSpec{f1}, []chunkSpec{small[3], small[0], f1})
	return tasks
}

var c19TaskNames = []string{"a", "a-b", "a.b", "a b", "ü", "a-stdout", "lint:js", "lint_js", "a%2Fb"}

func runC19(tier string, part, parts int) procxResult {
	res := procxResult{prop: "C19"}
	specs := c19TaskSpecs(tier)
	const perJob = 9
	type jobSpec struct {
		tasks map[string][]chunkSpec
	}
	var jobs []jobSpec
	for i := 0; i < len(specs); i += perJob {
		js := jobSpec{tasks: map[string][]chunkSpec{}}
		for k := 0; k < perJob && i+k < len(specs); k++ {
			js.tasks[c19TaskNames[(k+i/perJob)%len(c19TaskNames)]] = specs[i+k]
		}
		jobs = append(jobs, js)
	}
	pipes := map[string]PipeCfg{}
	letterOf := func(job int, copyIdx int, task string, cmd int) byte {
		h := job*31 + copyIdx*17 + cmd*7
		for _, c := range []byte(task) {
			h += int(c)
		}
		return byte('a' + h%26)
	}
	for ji, js := range jobs {
		if ji%parts != part {
			continue
		}
		for cp := 0; cp < 2; cp++ {
			g := map[string][]string{}
			sc := map[string][]string{}
			allow := map[string]bool{}
			for tn, cmds := range js.tasks {
				g[tn] = nil
				for _, c := range cmds {
					if c.fail && cp == 0 {
						allow[tn] = true // copy 0: allow_failure; copy 1: the task fails hard
					}
				}
				var lines []string
				for ci, c := range cmds {
					lines = append(lines, c.command(letterOf(ji, cp, tn, ci)))
				}
				sc[tn] = lines
			}
			pipes[fmt.Sprintf("j%d_%d", ji, cp)] = PipeCfg{Conc: 1, QL: -1, Graph: g, Script: sc, Allow: allow, Continue: true}
		}
	}
	defs := mkDefs(pipes)
	pw := newProcWorld(defs, 0)
	defer pw.close()
	started := map[string]*prunner.PipelineJob{}
	names := make([]string, 0, len(pipes))
	for n := range pipes {
		names = append(names, n)
	}
	sort.Strings(names)
	for _, n := range names {
		j, err := pw.r.ScheduleAsync(n, prunner.ScheduleOpts{})
		if err != nil {
			panic(err)
		}
		started[n] = j
	}
	for ji, js := range jobs {
		if ji%parts != part {
			continue
		}
		for cp := 0; cp < 2; cp++ {
			j := started[fmt.Sprintf("j%d_%d", ji, cp)]
			v, ok := pw.wait(j.ID, 120*time.Second)
			if !ok {
				res.inconclusive(fmt.Sprintf("output job %d/%d did not finish within 120s", ji, cp))
				continue
			}
			hasFail := false
			for _, cmds := range js.tasks {
				for _, c := range cmds {
					if c.fail && cp == 1 {
						hasFail = true
					}
				}
			}
			if v.LastError != "" && !hasFail {
				res.add("job-failed", fmt.Sprintf("output job %d/%d failed: %s", ji, cp, v.LastError))
			}
			for tn, cmds := range js.tasks {
				want := map[string][]byte{"stdout": nil, "stderr": nil}
				expectFail := false
				for ci, c := range cmds {
					st := "stdout"
					if c.stderr {
						st = "stderr"
					}
					want[st] = append(want[st], c.expect(letterOf(ji, cp, tn, ci))...)
					if c.fail && cp == 1 {
						expectFail = true
						break // not allow_failure: the task stops at the failing command
					}
				}
				_ = expectFail
				_, body := apiGet(pw.h, "GET", "/job/logs?id="+j.ID.String()+"&task="+url.QueryEscape(tn), "")
				api, _ := decodeJSON(body).(map[string]interface{})
				for _, st := range []string{"stdout", "stderr"} {
					res.Cases++
					res.Distinct++
					got, err := pw.output(j.ID, tn, st)
					desc := fmt.Sprintf("task %q (commands %s), stream %s", tn, descCmds(cmds), st)
					if err != nil {
						res.add("store-read-fails:"+nameClass(tn), fmt.Sprintf("%s: the log store cannot return the output: %v", desc, err))
						continue
					}
					if !bytes.Equal(got, want[st]) {
						res.add("store-output-differs:"+nameClass(tn)+":"+diffKind(got, want[st]), fmt.Sprintf("%s: the log store returns %d bytes (%q...), the commands wrote %d bytes (%q...)", desc, len(got), head(got, 30), len(want[st]), head(want[st], 30)))
					}
					as, _ := api[st].(string)
					if as != string(want[st]) {
						res.add("api-output-differs:"+nameClass(tn)+":"+diffKind([]byte(as), want[st]), fmt.Sprintf("%s: the log API returns %d bytes, the commands wrote %d bytes", desc, len(as), len(want[st])))
					}
				}
			}
			// a task the job does not have is refused
			code, _ := apiGet(pw.h, "GET", "/job/logs?id="+j.ID.String()+"&task=nosuchtask", "")
			res.Cases++
			if code != 404 {
				res.add("unknown-task-not-refused", fmt.Sprintf("a log request for a task the job does not have answers %d", code))
			}
			// ... also when the requested name is a decoration of a task the job does have (path elements, case, blanks,
			// a prefix / an extension, another job's directory): a name is a task of the job or it is not
			var other string
			for _, n := range names {
				if oj := started[n]; oj.ID != j.ID {
					other = oj.ID.String()
					break
				}
			}
			var taskNames []string
			for tn := range js.tasks {
				taskNames = append(taskNames, tn)
			}
			sort.Strings(taskNames)
			for _, tn := range taskNames {
				var decorated []string
				for _, d := range []string{"x/%s", "./%s", "%s/", "%s/.", "../" + other + "/%s", "/%s", "%s ", " %s", "%sx", "%s%%00", "%s.log", "%s-stdout"} {
					decorated = append(decorated, fmt.Sprintf(d, tn))
				}
				if up := strings.ToUpper(tn); up != tn {
					decorated = append(decorated, up)
				}
				if len(tn) > 1 {
					decorated = append(decorated, tn[:len(tn)-1])
				}
				for _, dn := range decorated {
					isTask := false
					for _, x := range taskNames {
						if x == dn {
							isTask = true
						}
					}
					if isTask {
						continue
					}
					code, _ := apiGet(pw.h, "GET", "/job/logs?id="+j.ID.String()+"&task="+url.QueryEscape(dn), "")
					res.Cases++
					if code != 404 {
						res.add("unknown-task-not-refused:decorated-name", fmt.Sprintf("a log request for task %q, which the job does not have (it has %q), answers %d", dn, taskNames, code))
					}
				}
			}
		}
	}
	if part == 0 {
		runC19Extra(&res)
	}
	if part == 1%parts {
		runC19More(&res)
	}
	res.Samples = append(res.Samples, fmt.Sprintf("%d task output specs, e.g. %s; task names %q; every job runs twice concurrently", len(specs), descCmds(specs[len(specs)-1]), c19TaskNames))
	return res
}

// runC19Extra: output of tasks that are interrupted, and of jobs that are still running while retention
// removes other jobs of their pipeline
func runC19Extra(res *procxResult) {
	// (1) a cancelled task's output so far is what the store and the API return
	for _, mode := range []string{"cancel", "fail-fast-sibling"} {
		g := map[string][]string{"w": nil}
		sc := map[string][]string{"w": {"printf 'before-the-stop\\n'", "printf 'err-before\\n' >&2", "sleep 30", "printf never"}}
		if mode == "fail-fast-sibling" {
			g["f"] = nil
			sc["f"] = []string{"sleep 0.3", "exit 3"}
		}
		pw := newProcWorld(mkDefs(map[string]PipeCfg{"c": {Conc: 1, QL: -1, Graph: g, Script: sc}}), 200*time.Millisecond)
		j, _ := pw.r.ScheduleAsync("c", prunner.ScheduleOpts{})
		for i := 0; i < 3000; i++ {
			if b, err := pw.output(j.ID, "w", "stderr"); err == nil && len(b) > 0 {
				break
			}
			time.Sleep(2 * time.Millisecond)
		}
		if mode == "cancel" {
			_ = pw.r.CancelJob(j.ID)
		}
		pw.wait(j.ID, 30*time.Second)
		_, body := apiGet(pw.h, "GET", "/job/logs?id="+j.ID.String()+"&task=w", "")
		api, _ := decodeJSON(body).(map[string]interface{})
		for st, want := range map[string]string{"stdout": "before-the-stop\n", "stderr": "err-before\n"} {
			res.Cases++
			res.Distinct++
			got, _ := pw.output(j.ID, "w", st)
			if string(got) != want {
				res.add("interrupted-task-output:store:"+mode, fmt.Sprintf("task stopped by %s: the log store returns %q for %s, the task had written %q", mode, got, st, want))
			}
			if as, _ := api[st].(string); as != want {
				res.add("interrupted-task-output:api:"+mode, fmt.Sprintf("task stopped by %s: the log API returns %q for %s, the task had written %q", mode, as, st, want))
			}
		}
		pw.close()
	}
	// (2) retention removes finished jobs while an older job of the pipeline still runs: the running job's logs stay
	{
		cfg := PipeCfg{Conc: 3, QL: -1, RetCount: 1, Graph: map[string][]string{"a": nil},
			Script: map[string][]string{"a": {"printf 'start-%s;' '{{ .n }}'", "sleep {{ .d }}", "printf 'end-%s' '{{ .n }}'"}}}
		pw := newProcWorld(mkDefs(map[string]PipeCfg{"r": cfg}), 0)
		ja, _ := pw.r.ScheduleAsync("r", prunner.ScheduleOpts{Variables: map[string]interface{}{"n": "A", "d": "4"}})
		time.Sleep(20 * time.Millisecond)
		jb, _ := pw.r.ScheduleAsync("r", prunner.ScheduleOpts{Variables: map[string]interface{}{"n": "B", "d": "0"}})
		time.Sleep(20 * time.Millisecond)
		jc, _ := pw.r.ScheduleAsync("r", prunner.ScheduleOpts{Variables: map[string]interface{}{"n": "C", "d": "0"}})
		pw.wait(jb.ID, 10*time.Second)
		pw.wait(jc.ID, 10*time.Second)
		stillRunning := false
		_ = pw.r.ReadJob(ja.ID, func(j *prunner.PipelineJob) { stillRunning = !j.Completed && !j.Canceled })
		pw.r.SaveToStore() // B (older finished) goes, C stays, A is still running
		pw.wait(ja.ID, 30*time.Second)
		res.Cases++
		res.Distinct++
		got, err := pw.output(ja.ID, "a", "stdout")
		if !stillRunning {
			// on a very slow machine A (4 s) ended before B and C did: the situation did not arise, nothing to judge
			res.inconclusive("retention while a job runs: the long job had already finished when the save was made")
		} else if err != nil || string(got) != "start-A;end-A" {
			res.add("running-job-logs-hit-by-retention", fmt.Sprintf("a save removed finished jobs while an older job of the pipeline was still running; afterwards that job's output is %q (err %v), want %q", got, err, "start-A;end-A"))
		}
		_, body := apiGet(pw.h, "GET", "/job/logs?id="+ja.ID.String()+"&task=a", "")
		api, _ := decodeJSON(body).(map[string]interface{})
		if as, _ := api["stdout"].(string); stillRunning && as != "start-A;end-A" {
			res.add("running-job-logs-hit-by-retention:api", fmt.Sprintf("the log API returns %q for the job that was running during the save", as))
		}
		if _, err := pw.output(jb.ID, "a", "stdout"); err == nil && stillRunning {
			res.add("removed-job-logs-remain", "the logs of the job removed by retention are still readable")
		}
		pw.close()
	}
}

// runC19More: commands that reopen their standard streams by name, and logs of a job after the definitions changed
func runC19More(res *procxResult) {
	// (3) a command that reopens its stdout / stderr by name (> /dev/stdout, --log-file /dev/stderr, tee /dev/stderr):
	// what earlier commands of the task wrote stays, what it writes is appended
	{
		sc := map[string][]string{"a": {
			"printf 'first;'", "printf 'e-first;' >&2",
			"sh -c 'printf second\\; > /dev/stdout'", "sh -c 'printf e-second\\; > /dev/stderr'",
			"printf 'third'", "printf 'e-third' >&2",
		}}
		pw := newProcWorld(mkDefs(map[string]PipeCfg{"o": {Conc: 1, QL: -1, Graph: graphOne, Script: sc}}), 0)
		j, _ := pw.r.ScheduleAsync("o", prunner.ScheduleOpts{})
		if v, ok := pw.wait(j.ID, 60*time.Second); !ok {
			res.inconclusive("reopened-streams job did not finish within 60s")
		} else if v.LastError != "" {
			res.add("reopened-streams-job-fails", "a task whose commands reopen /dev/stdout and /dev/stderr fails: "+v.LastError)
		} else {
			_, body := apiGet(pw.h, "GET", "/job/logs?id="+j.ID.String()+"&task=a", "")
			api, _ := decodeJSON(body).(map[string]interface{})
			for st, want := range map[string]string{"stdout": "first;second;third", "stderr": "e-first;e-second;e-third"} {
				res.Cases++
				res.Distinct++
				got, _ := pw.output(j.ID, "a", st)
				if string(got) != want {
					res.add("reopened-stream-output:store", fmt.Sprintf("commands of one task write to %s, the second one through /dev/%s: the log store returns %q, want %q", st, st, got, want))
				}
				if as, _ := api[st].(string); as != want {
					res.add("reopened-stream-output:api", fmt.Sprintf("commands of one task write to %s, the second one through /dev/%s: the log API returns %q, want %q", st, st, as, want))
				}
			}
		}
		pw.close()
	}
	// (5) non-ASCII output larger than any plausible buffer: a three-byte character straddles every power-of-two boundary
	{
		unit := "\xe2\x82\xac" // the euro sign
		n := 40000
		sc := map[string][]string{"a": {fmt.Sprintf("printf 'x'; i=0; while [ $i -lt %d ]; do printf '%s%s%s%s%s%s%s%s%s%s'; i=$((i+10)); done", n, unit, unit, unit, unit, unit, unit, unit, unit, unit, unit)}}
		pw := newProcWorld(mkDefs(map[string]PipeCfg{"u": {Conc: 1, QL: -1, Graph: graphOne, Script: sc}}), 0)
		j, _ := pw.r.ScheduleAsync("u", prunner.ScheduleOpts{})
		if v, ok := pw.wait(j.ID, 120*time.Second); !ok {
			res.inconclusive("non-ASCII output job did not finish within 120s")
		} else if v.LastError != "" {
			res.add("non-ascii-output-job-fails", "a task that prints 120 kB of non-ASCII text fails: "+v.LastError)
		} else {
			want := "x" + strings.Repeat(unit, n)
			res.Cases += 2
			res.Distinct += 2
			if got, _ := pw.output(j.ID, "a", "stdout"); string(got) != want {
				res.add("non-ascii-output:store", fmt.Sprintf("120 kB of three-byte characters: the log store returns %d bytes, %d expected (first difference at byte %d)", len(got), len(want), firstDiffByte(string(got), want)))
			}
			_, body := apiGet(pw.h, "GET", "/job/logs?id="+j.ID.String()+"&task=a", "")
			api, _ := decodeJSON(body).(map[string]interface{})
			if as, _ := api["stdout"].(string); as != want {
				res.add("non-ascii-output:api", fmt.Sprintf("120 kB of three-byte characters: the log API returns %d bytes, %d expected (first difference at byte %d)", len(as), len(want), firstDiffByte(as, want)))
			}
		}
		pw.close()
	}
	// (6) a process that outlives the command which started it and still holds the task's output: what it writes later
	// (here after 2.6 s, longer than the default kill timeout) is output of the task
	{
		sc := map[string][]string{"a": {"sh -c '(sleep 2.6; printf late) & printf early-'", "printf 'next'"}}
		pw := newProcWorld(mkDefs(map[string]PipeCfg{"l": {Conc: 1, QL: -1, Graph: graphOne, Script: sc}}), 0)
		j, _ := pw.r.ScheduleAsync("l", prunner.ScheduleOpts{})
		if v, ok := pw.wait(j.ID, 60*time.Second); !ok {
			res.inconclusive("late-output job did not finish within 60s")
		} else if v.LastError == "" {
			res.Cases++
			res.Distinct++
			if got, _ := pw.output(j.ID, "a", "stdout"); string(got) != "early-latenext" {
				res.add("late-output-of-left-behind-process", fmt.Sprintf("a command leaves a process behind that holds the task's stdout and writes 2.6 s later: the log holds %q, want %q", got, "early-latenext"))
			}
		}
		pw.close()
	}
	// (4) the logs of a finished job stay readable, under the task names the job had, after a reload that renames /
	// removes / adds tasks; a task the job never had stays refused
	{
		before := PipeCfg{Conc: 1, QL: -1, Graph: map[string][]string{"build": nil, "test": {"build"}},
			Script: map[string][]string{"build": {"printf 'built'"}, "test": {"printf 'tested'"}}}
		after := PipeCfg{Conc: 1, QL: -1, Graph: map[string][]string{"compile": nil, "deploy": {"compile"}},
			Script: map[string][]string{"compile": {"printf 'compiled'"}, "deploy": {"printf 'deployed'"}}}
		pw := newProcWorld(mkDefs(map[string]PipeCfg{"l": before}), 0)
		j, _ := pw.r.ScheduleAsync("l", prunner.ScheduleOpts{})
		if _, ok := pw.wait(j.ID, 60*time.Second); !ok {
			res.inconclusive("logs-after-reload job did not finish within 60s")
		} else {
			pw.r.ReplaceDefinitions(mkDefs(map[string]PipeCfg{"l": after}))
			for task, want := range map[string]string{"build": "built", "test": "tested"} {
				res.Cases++
				res.Distinct++
				code, body := apiGet(pw.h, "GET", "/job/logs?id="+j.ID.String()+"&task="+task, "")
				api, _ := decodeJSON(body).(map[string]interface{})
				if as, _ := api["stdout"].(string); code != 200 || as != want {
					res.add("logs-after-reload", fmt.Sprintf("after a reload that renames the tasks, the log request for task %s of the job that ran before answers %d %q, want 200 %q", task, code, as, want))
				}
			}
			for _, task := range []string{"compile", "deploy"} {
				res.Cases++
				if code, _ := apiGet(pw.h, "GET", "/job/logs?id="+j.ID.String()+"&task="+task, ""); code != 404 {
					res.add("logs-after-reload:unknown-task-not-refused", fmt.Sprintf("after the reload a log request for task %s, which the job never had, answers %d instead of 404", task, code))
				}
			}
		}
		pw.close()
	}
}

func firstDiffByte(a, b string) int {
	for i := 0; i < len(a) && i < len(b); i++ {
		if a[i] != b[i] {
			return i
		}
	}
	if len(a) < len(b) {
		return len(a)
	}
	return len(b)
}

func descCmds(cs []chunkSpec) string {
	var p []string
	for _, c := range cs {
		s := "out"
		if c.stderr {
			s = "err"
		}
		k := "builtin"
		if c.exec {
			k = "exec"
		}
		p = append(p, fmt.Sprintf("%s:%d%s:%s", s, c.size, map[bool]string{true: "+nl", false: ""}[c.newline], k))
	}
	return "[" + strings.Join(p, " ") + "]"
}

func nameClass(n string) string {
	if n == "a" {
		return "plain-name"
	}
	return "name=" + n
}

func diffKind(got, want []byte) string {
	switch {
	case len(got) == 0:
		return "empty"
	case len(got) < len(want) && bytes.HasPrefix(want, got):
		return "truncated"
	case len(got) > len(want):
		return "extra"
	}
	return "different-bytes"
}

// ---------------------------------------------------------------------------------------------
// C20

func procsWithMarker(marker string) []string {
	var res []string
	ents, _ := os.ReadDir("/proc")
	needle := []byte("VERIF_MARK=" + marker + "\x00")
	for _, e := range ents {
		n := e.Name()
		if n[0] < '0' || n[0] > '9' {
			continue
		}
		env, err := os.ReadFile("/proc/" + n + "/environ")
		if err != nil || !bytes.Contains(env, needle) {
			continue
		}
		st, err := os.ReadFile("/proc/" + n + "/stat")
		if err != nil {
			continue
		}
		// state is the field after the closing parenthesis of comm
		if i := bytes.LastIndexByte(st, ')'); i > 0 && i+2 < len(st) && st[i+2] == 'Z' {
			continue // a zombie is not alive
		}
		cmd, _ := os.ReadFile("/proc/" + n + "/cmdline")
		res = append(res, n+":"+strings.ReplaceAll(string(cmd), "\x00", " "))
	}
	return res
}

type treeShape struct {
	name   string
	script []string
	leaves int
}

func c20Shapes(tier string) []treeShape {
	leaf := "sleep 600"
	child := []struct {
		n, s   string
		leaves int
	}{
		{"fg", leaf, 1},
		{"bg+wait", leaf + " & wait", 1},
		{"bg-nowait+fg", leaf + " >/dev/null 2>&1 & " + leaf, 2},
		{"pipe", leaf + " | " + leaf, 2},
		{"subshell", "( " + leaf + " )", 1},
		{"trap-int", "trap '' INT; " + leaf, 1},
		{"trap-int-term", "trap '' INT TERM HUP QUIT; " + leaf + " >/dev/null 2>&1 & " + leaf, 2},
		// the leader handles the interrupt and exits on its own (no signal death), its children ignore the interrupt
		// (every background command of a non-interactive shell does) and hold no output of the task
		{"trap-exit+bg", "trap 'exit 3' INT; " + leaf + " >/dev/null 2>&1 & " + leaf + " >/dev/null 2>&1 & wait", 2},
	}
	var level2 []struct {
		n, s   string
		leaves int
	}
	for _, a := range child {
		level2 = append(level2, a)
	}
	if tier == "thorough" {
		for _, a := range child {
			for _, b := range child {
				// nesting: a's leaf is replaced by another bash running b
				inner := "bash -c '" + strings.ReplaceAll(b.s, "'", `'"'"'`) + "'"
				s := strings.Replace(a.s, leaf, inner, 1)
				level2 = append(level2, struct {
					n, s   string
					leaves int
				}{a.n + ">" + b.n, s, a.leaves - 1 + b.leaves})
			}
		}
	} else {
		for _, p := range [][2]int{{1, 5}, {3, 1}, {4, 3}, {5, 1}, {2, 2}} {
			a, b := child[p[0]], child[p[1]]
			inner := "bash -c '" + strings.ReplaceAll(b.s, "'", `'"'"'`) + "'"
			s := strings.Replace(a.s, leaf, inner, 1)
			level2 = append(level2, struct {
				n, s   string
				leaves int
			}{a.n + ">" + b.n, s, a.leaves - 1 + b.leaves})
		}
	}
	var shapes []treeShape
	q := func(s string) string { return "bash -c '" + strings.ReplaceAll(s, "'", `'"'"'`) + "'" }
	for _, c := range level2 {
		shapes = append(shapes,
			treeShape{"plain/" + c.n, []string{q(c.s)}, c.leaves},
			treeShape{"interp-bg/" + c.n, []string{q(c.s) + " & wait"}, c.leaves},
			treeShape{"interp-pipe/" + c.n, []string{q(c.s) + " | cat"}, c.leaves},
			treeShape{"interp-subshell/" + c.n, []string{"( " + q(c.s) + " )"}, c.leaves},
		)
	}
	// a helper daemonised by an earlier, already finished command of the script
	shapes = append(shapes,
		treeShape{"earlier-command-daemon", []string{"bash -c 'sleep 600 >/dev/null 2>&1 &'", "sleep 600"}, 2},
		treeShape{"earlier-command-daemon-ignoring-int", []string{"bash -c \"trap '' INT; sleep 600 >/dev/null 2>&1 &\"", "sleep 600"}, 2},
		treeShape{"two-commands", []string{"sleep 0.05", "sleep 600"}, 1},
		// the helper was left behind by an earlier command that FAILED (the script goes on: `|| true`)
		treeShape{"earlier-failed-command-daemon", []string{"bash -c 'sleep 600 >/dev/null 2>&1 & exit 3' || true", "sleep 600"}, 2},
		// a process whose executable name contains a blank (its /proc stat line reads "pid (long worker) S ...")
		treeShape{"name-with-blank", []string{"bash -c \"'" + longWorkerPath() + "' 600 >/dev/null 2>&1 &\"", "sleep 600"}, 1},
	)
	return shapes
}

func runC20(tier string, part, parts int) procxResult {
	res := procxResult{prop: "C20"}
	defer func() {
		if longWorker != "" {
			os.RemoveAll(filepath.Dir(longWorker))
			longWorker = ""
		}
	}()
	if part == 0 {
		runC20History(&res)
	}
	// The kill timeout is long compared with the allowance below: a runner that reports the job finished while an
	// interrupt-ignoring process still waits for the escalation is caught with the process alive.
	killTimeout := 2500 * time.Millisecond
	const latency = time.Second // "scheduling latency": a process that has been sent SIGKILL may take a moment to disappear
	shapes := c20Shapes(tier)
	modes := []string{"cancel-when-all-leaves-run", "cancel-at-once", "forced-shutdown", "cancel-after-30ms"}
	caseNo := 0
	for si, sh := range shapes {
		for _, mode := range modes {
			caseNo++
			if caseNo%parts != part {
				continue
			}
			marker := fmt.Sprintf("m%d_%d_%d", os.Getpid(), si, caseNo)
			other := marker + "_other"
			defs := mkDefs(map[string]PipeCfg{
				"victim": {Conc: 1, QL: -1, Graph: graphOne, Script: map[string][]string{"a": sh.script}, TaskEnv: map[string]map[string]string{"a": {"VERIF_MARK": marker}}},
				// the bystander's first script line leaves a background helper behind (a process group of its own that outlives
				// its command), the second line runs: neither may be touched by the cancel of the victim
				"bystander": {Conc: 1, QL: -1, Graph: graphOne, Script: map[string][]string{"a": {"bash -c 'sleep 600 >/dev/null 2>&1 &'", "sleep 600"}}, TaskEnv: map[string]map[string]string{"a": {"VERIF_MARK": other}}},
			})
			pw := newProcWorld(defs, killTimeout)
			desc := fmt.Sprintf("script %q, %s", sh.script, mode)
			var by *prunner.PipelineJob
			if mode != "forced-shutdown" {
				by, _ = pw.r.ScheduleAsync("bystander", prunner.ScheduleOpts{})
				for i := 0; i < 2500 && countSleeps(other) < 2; i++ {
					time.Sleep(2 * time.Millisecond)
				}
			}
			j, err := pw.r.ScheduleAsync("victim", prunner.ScheduleOpts{})
			if err != nil {
				panic(err)
			}
			if mode == "cancel-after-30ms" {
				time.Sleep(30 * time.Millisecond) // the tree is (typically) only partly built
			} else if mode != "cancel-at-once" {
				ok := false
				for i := 0; i < 5000; i++ {
					if len(procsWithMarker(marker)) >= sh.leaves+0 && countSleeps(marker) >= sh.leaves {
						ok = true
						break
					}
					time.Sleep(2 * time.Millisecond)
				}
				if !ok {
					res.inconclusive(fmt.Sprintf("%s: the expected %d leaf processes did not appear within 10s: %v", desc, sh.leaves, procsWithMarker(marker)))
				}
			}
			t0 := time.Now()
			if mode == "forced-shutdown" {
				ctx, cf := context.WithCancel(context.Background())
				cf()
				_ = pw.r.Shutdown(ctx)
			} else {
				if err := pw.r.CancelJob(j.ID); err != nil {
					res.add("cancel-fails", desc+": CancelJob: "+err.Error())
				}
			}
			v, finished := pw.wait(j.ID, 30*time.Second)
			res.Cases++
			res.Distinct++
			if !finished {
				res.add("job-never-reported-finished:"+shapeClass(sh.name), fmt.Sprintf("%s: the job is not reported finished 30s after the cancel: %+v; processes: %v", desc, v.Tasks, procsWithMarker(marker)))
			} else {
				reported := time.Since(t0)
				// from the moment the job is reported finished no process of it may be alive (beyond the latency allowance)
				deadline := time.Now().Add(latency)
				var alive []string
				for {
					alive = procsWithMarker(marker)
					if len(alive) == 0 || time.Now().After(deadline) {
						break
					}
					time.Sleep(20 * time.Millisecond)
				}
				if len(alive) > 0 && os.Getenv("VERIF_C20_DEBUG") != "" {
					fmt.Fprintf(os.Stderr, "C20DEBUG %s | %s | reported=%v alive=%d\n", sh.name, mode, reported.Round(time.Millisecond), len(alive))
				}
				if len(alive) > 0 {
					res.add("process-survives-cancel:"+shapeClass(sh.name)+":"+mode, fmt.Sprintf("%s: the job was reported finished %v after the cancel (kill timeout %v), but %d of its processes are still alive %v later: %v", desc, reported.Round(time.Millisecond), killTimeout, len(alive), latency, alive))
				}
				if reported > killTimeout+10*time.Second {
					res.add("cancel-takes-longer-than-kill-timeout:"+shapeClass(sh.name)+":"+mode, fmt.Sprintf("%s: the job was reported finished only %v after the cancel (kill timeout %v)", desc, reported.Round(time.Millisecond), killTimeout))
				}
			}
			if by != nil {
				if n := countSleeps(other); n < 2 {
					res.add("bystander-killed:"+shapeClass(sh.name), fmt.Sprintf("%s: processes of another job were killed too (%d of its 2 sleep processes left)", desc, n))
				}
				// (kill the bystander's processes first: its cancel would otherwise wait for the kill timeout of its own helper)
				for _, p := range procsWithMarker(other) {
					var pid int
					fmt.Sscanf(p, "%d:", &pid)
					syscall.Kill(pid, syscall.SIGKILL)
				}
				_ = pw.r.CancelJob(by.ID)
				pw.wait(by.ID, 10*time.Second)
			}
			// clean up whatever is left so that a leak does not accumulate
			for _, m := range []string{marker, other} {
				for _, p := range procsWithMarker(m) {
					var pid int
					fmt.Sscanf(p, "%d:", &pid)
					syscall.Kill(pid, syscall.SIGKILL)
				}
			}
			pw.close()
			if len(res.Samples) < 2 {
				res.Samples = append(res.Samples, desc)
			}
		}
	}
	return res
}

// runC20History: the cancel must reach every process of the job also after a history in which the job was
// dequeued behind a job that could not be started
func runC20History(res *procxResult) {
	marker := fmt.Sprintf("h%d", os.Getpid())
	mk := func(m string) map[string]map[string]string {
		return map[string]map[string]string{"a": {"VERIF_MARK": m}}
	}
	_ = mk
	cfg := PipeCfg{Conc: 2, QL: -1, Graph: graphOne, Script: map[string][]string{"a": {"sleep 600"}}, TaskEnv: map[string]map[string]string{"a": {"VERIF_MARK": marker}}}
	pw := newProcWorld(mkDefs(map[string]PipeCfg{"h": cfg}), 300*time.Millisecond)
	defer pw.close()
	sched := func(bad bool) *prunner.PipelineJob {
		o := prunner.ScheduleOpts{}
		if bad {
			o.Variables = map[string]interface{}{taskctl.JobIDVariableName: "x"}
		}
		j, err := pw.r.ScheduleAsync("h", o)
		if err != nil {
			panic(err)
		}
		return j
	}
	j1, j2 := sched(false), sched(false)
	_ = sched(true)
	j4, j5 := sched(false), sched(false)
	waitN := func(n int) bool {
		for i := 0; i < 4000; i++ {
			if countSleeps(marker) >= n {
				return true
			}
			time.Sleep(2 * time.Millisecond)
		}
		return false
	}
	waitN(2)
	_ = pw.r.CancelJob(j1.ID) // frees a slot: the unstartable job is skipped, job 4 starts
	pw.wait(j1.ID, 10*time.Second)
	waitN(2)
	_ = pw.r.CancelJob(j2.ID) // frees the other slot: job 5 starts
	pw.wait(j2.ID, 10*time.Second)
	waitN(2)
	time.Sleep(100 * time.Millisecond)
	res.Cases++
	res.Distinct++
	if n := countSleeps(marker); n != 2 {
		res.add("history:process-count", fmt.Sprintf("after jobs 1 and 2 were cancelled, jobs 4 and 5 should each run one process; %d processes of the pipeline are alive: %v", n, procsWithMarker(marker)))
	}
	_ = pw.r.CancelJob(j4.ID)
	_ = pw.r.CancelJob(j5.ID)
	pw.wait(j4.ID, 10*time.Second)
	pw.wait(j5.ID, 10*time.Second)
	deadline := time.Now().Add(10 * time.Second)
	var alive []string
	for {
		alive = procsWithMarker(marker)
		if len(alive) == 0 || time.Now().After(deadline) {
			break
		}
		time.Sleep(20 * time.Millisecond)
	}
	if len(alive) > 0 {
		res.add("history:process-survives-cancel", fmt.Sprintf("history [2 running, unstartable job, job 4, job 5; cancel 1, cancel 2, cancel 4, cancel 5]: every job is reported finished but %d processes are still alive: %v", len(alive), alive))
		for _, p := range alive {
			var pid int
			fmt.Sscanf(p, "%d:", &pid)
			syscall.Kill(pid, syscall.SIGKILL)
		}
	}
}

// longWorkerPath: a copy of sleep(1) under a name with a blank, made once per process
var longWorker string

func longWorkerPath() string {
	if longWorker != "" {
		return longWorker
	}
	dir, err := os.MkdirTemp("", "verif-lw-")
	if err != nil {
		panic(err)
	}
	src, err := exec.LookPath("sleep")
	if err != nil {
		panic(InfraError{"no sleep(1) on PATH"})
	}
	b, err := os.ReadFile(src)
	if err != nil {
		panic(err)
	}
	longWorker = filepath.Join(dir, "long worker")
	if err := os.WriteFile(longWorker, b, 0o755); err != nil {
		panic(err)
	}
	return longWorker
}

func countSleeps(marker string) int {
	n := 0
	for _, p := range procsWithMarker(marker) {
		if strings.Contains(p, ":sleep 600") {
			n++
		}
	}
	return n
}

func shapeClass(n string) string { return n }

// ---------------------------------------------------------------------------------------------
// C02 / C08 on the real runner: the mock runner of the model-checking units assumes that a command
// which does not end with exit status 0 - whatever the way it dies - is reported as a failed task.
// This unit checks that assumption, and the consequences the statements attach to it, on real processes.

func runRealFailures(prop string) procxResult {
	res := procxResult{prop: prop}
	kinds := []struct{ n, cmd string }{
		{"exit-1", "exit 1"}, {"exit-3", "sh -c 'exit 3'"}, {"false", "false"}, {"sigkill", "sh -c 'kill -KILL $$'"}, {"sigterm", "sh -c 'kill -TERM $$'"},
		{"sigsegv", "sh -c 'kill -SEGV $$'"}, {"not-found", "verif-no-such-command-xyz"}, {"second-command-fails", "true"},
	}
	for _, k := range kinds {
		for _, allow := range []bool{false, true} {
			for _, cont := range []bool{false, true} {
				script := []string{k.cmd}
				if k.n == "second-command-fails" {
					script = []string{"printf first", "sh -c 'exit 4'", "printf third"}
				}
				// the independent task is short where it has to run to its end, and long where the failure has to stop it: no
				// verdict may depend on how quickly a loaded machine delivers the stop
				sibling := "sleep 0.4"
				if !allow && !cont {
					sibling = "sleep 20"
				}
				cfg := PipeCfg{Conc: 1, QL: -1, Continue: cont,
					Graph:  map[string][]string{"f": nil, "d": {"f"}, "s": nil},
					Allow:  map[string]bool{"f": allow},
					Script: map[string][]string{"f": script, "d": {"printf dependent-ran"}, "s": {sibling, "printf sibling-ran"}}}
				pw := newProcWorld(mkDefs(map[string]PipeCfg{"p": cfg}), 200*time.Millisecond)
				j, err := pw.r.ScheduleAsync("p", prunner.ScheduleOpts{})
				if err != nil {
					panic(err)
				}
				v, ok := pw.wait(j.ID, 60*time.Second)
				res.Cases++
				res.Distinct++
				desc := fmt.Sprintf("task f runs %q (allow_failure=%v, continue_running_tasks_after_failure=%v)", script, allow, cont)
				_ = k.n
				if !ok {
					res.inconclusive(desc + ": the job did not finish within 60s")
					pw.close()
					continue
				}
				task := map[string]prunner.VerifTask{}
				for _, t := range v.Tasks {
					task[t.Name] = t
				}
				dOut, dErr := pw.output(j.ID, "d", "stdout")
				dRan := dErr == nil && string(dOut) == "dependent-ran"
				sOut, _ := pw.output(j.ID, "s", "stdout")
				plain := v.Completed && !v.Canceled && v.LastError == ""
				if allow {
					if !dRan {
						res.add("allow-failure-blocks-dependent:"+k.n, desc+": the dependent task did not run")
					}
					if !plain || task["f"].Errored {
						res.add("allow-failure-fails-job:"+k.n, fmt.Sprintf("%s: the job ends completed=%v canceled=%v lastError=%q, task f errored=%v", desc, v.Completed, v.Canceled, v.LastError, task["f"].Errored))
					}
					if string(sOut) != "sibling-ran" {
						res.add("allow-failure-stops-sibling:"+k.n, desc+": the independent task did not run to its end")
					}
				} else {
					if dRan || task["d"].HasStart {
						res.add("dependent-of-failed-task-runs:"+k.n, desc+": the task depending on the failed task ran")
					}
					if plain {
						res.add("failed-job-reported-success:"+k.n, desc+": the job is reported completed, not canceled, without error")
					}
					if !task["f"].Errored {
						res.add("failed-task-not-reported-errored:"+k.n, fmt.Sprintf("%s: task f is reported errored=%v status=%q exit=%d", desc, task["f"].Errored, task["f"].Status, task["f"].ExitCode))
					}
					if cont && string(sOut) != "sibling-ran" {
						res.add("independent-task-not-run-to-end:"+k.n, desc+": the independent task did not run to its natural end although continue_running_tasks_after_failure is set")
					}
					if !cont && string(sOut) == "sibling-ran" && k.n != "second-command-fails" {
						res.add("fail-fast-does-not-stop-sibling:"+k.n, desc+": the independent task (20s) ran to its end although the failure came first")
					}
				}
				if len(res.Samples) < 2 {
					res.Samples = append(res.Samples, desc)
				}
				pw.close()
			}
		}
	}
	return res
}

// runC13Real: the production task runner and exec handler under the race detector (free-running): overlapping cancel
// requests of one job, a shell pipeline and background jobs (the interpreter runs their commands concurrently), a
// fail-fast failure next to a cancel, and a forced shutdown. The detector reports unsynchronised accesses by
// happens-before, so executing both sides once is enough - no lucky timing is needed.
func runC13Real() procxResult {
	res := procxResult{prop: "C13"}
	scripts := [][]string{
		{"sleep 600 | sleep 600"},
		{"sleep 600 >/dev/null 2>&1 & sleep 600 >/dev/null 2>&1 & wait"},
		{"bash -c 'sleep 600 >/dev/null 2>&1 &'", "sleep 600 | cat"},
	}
	for si, sc := range scripts {
		for _, mode := range []string{"two-cancels", "cancel+failing-sibling", "cancel+forced-shutdown"} {
			marker := fmt.Sprintf("r%d_%d_%s", os.Getpid(), si, mode)
			g := map[string][]string{"a": nil}
			scr := map[string][]string{"a": sc}
			if mode == "cancel+failing-sibling" {
				g["f"] = nil
				scr["f"] = []string{"sleep 0.3", "exit 3"}
			}
			defs := mkDefs(map[string]PipeCfg{"v": {Conc: 1, QL: -1, Graph: g, Script: scr, TaskEnv: map[string]map[string]string{"a": {"VERIF_MARK": marker}}}})
			pw := newProcWorld(defs, 300*time.Millisecond)
			j, err := pw.r.ScheduleAsync("v", prunner.ScheduleOpts{})
			if err != nil {
				panic(err)
			}
			for i := 0; i < 2500 && countSleeps(marker) < 2; i++ {
				time.Sleep(2 * time.Millisecond)
			}
			var wg sync.WaitGroup
			switch mode {
			case "two-cancels":
				for k := 0; k < 2; k++ {
					wg.Add(1)
					go func() { defer wg.Done(); _ = pw.r.CancelJob(j.ID) }()
				}
			case "cancel+failing-sibling":
				time.Sleep(350 * time.Millisecond)
				wg.Add(1)
				go func() { defer wg.Done(); _ = pw.r.CancelJob(j.ID) }()
			case "cancel+forced-shutdown":
				wg.Add(2)
				go func() { defer wg.Done(); _ = pw.r.CancelJob(j.ID) }()
				go func() {
					defer wg.Done()
					ctx, cf := context.WithCancel(context.Background())
					cf()
					_ = pw.r.Shutdown(ctx)
				}()
			}
			wg.Wait()
			if _, ok := pw.wait(j.ID, 60*time.Second); !ok {
				res.inconclusive(fmt.Sprintf("real-runner race scenario %q / %s: the job did not finish within 60s", sc, mode))
			}
			res.Cases++
			res.Distinct++
			for _, p := range procsWithMarker(marker) {
				var pid int
				fmt.Sscanf(p, "%d:", &pid)
				syscall.Kill(pid, syscall.SIGKILL)
			}
			pw.close()
		}
	}
	res.Samples = append(res.Samples, "real task runner under the race detector: 3 scripts (pipeline, background jobs, helper left behind) x {two cancels, cancel + failing sibling, cancel + forced shutdown}")
	return res
}

func runProcxUnit(u Unit) UnitResult {
	res := UnitResult{Name: u.Name, Exhaustive: true, Unbounded: true}
	FreePause = 5 * time.Millisecond
	var r procxResult
	switch u.Prop {
	case "C02", "C08":
		r = runRealFailures(u.Prop)
	case "C18":
		r = runC18()
	case "C13":
		r = runC13Real()
		for _, more := range []procxResult{runHTTPConcurrent("C13"), runRestartRace(), runWritersRace("C13")} {
			r.Cases += more.Cases
			r.Distinct += more.Distinct
			r.Caps = append(r.Caps, more.Caps...)
			r.Viol = append(r.Viol, more.Viol...)
			r.Samples = append(r.Samples, more.Samples...)
		}
	case "C14":
		r = runHTTPConcurrent("C14")
	case "C19":
		if u.Bin == "race" {
			r = runWritersRace("C19")
			break
		}
		r = runC19(u.Tier, u.Index, procxParts(u.Prop, u.Tier))
	case "C20":
		r = runC20(u.Tier, u.Index, procxParts(u.Prop, u.Tier))
	}
	res.Execs, res.States, res.Transitions, res.Outcomes = r.Cases, r.Cases, r.Cases, r.Distinct
	res.Samples = r.Samples
	for _, v := range r.Viol {
		res.Viol = append(res.Viol, FoundViolation{Violation: v, Scenario: u.Name})
	}
	if len(r.Caps) > 0 {
		res.Exhaustive = false
		res.Caps = append(res.Caps, r.Caps...)
	}
	if vsched.RaceBuild {
		// free-running under the race detector: report races between production code only
		time.Sleep(200 * time.Millisecond)
		seen := map[string]bool{}
		n := 0
		for _, rep := range newRaceLog().poll() {
			n++
			if !rep.Prod || strings.Contains(rep.Text, "runtime.Goexit()") {
				continue
			}
			pair := []string{stripLine(rep.A), stripLine(rep.B)}
			sort.Strings(pair)
			norm := "race:" + pair[0] + " <-> " + pair[1]
			if seen[norm] {
				continue
			}
			seen[norm] = true
			res.Viol = append(res.Viol, FoundViolation{Violation: Violation{Property: u.Prop, Rule: "data-race", Norm: norm,
				Msg: "the Go race detector reports a data race between task executions:\n" + rep.Text}, Scenario: u.Name})
		}
		res.Extra = map[string]int{"race_reports_total": n}
	}
	return res
}

func procxParts(prop, tier string) int {
	switch prop {
	case "C18":
		return 1
	case "C19":
		return 4
	}
	return 16
}
