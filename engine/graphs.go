package main

// graphs.go: exhaustive task-graph enumeration for C02 / C08 / C15

import (
	"fmt"
	"sort"
	"strings"

	"github.com/taskctl/taskctl/pkg/scheduler"
	"github.com/taskctl/taskctl/pkg/task"

	"github.com/Flowpack/prunner"
	"github.com/Flowpack/prunner/definition"
)

var taskNames = []string{"a", "b", "c", "d", "e"}

// digraph returns the depends_on map of the digraph on n nodes encoded by mask: bit (i*n+j) set
// means task i depends on task j (j -> i), self-loops included.
func digraph(n int, mask uint64) map[string][]string {
	g := map[string][]string{}
	for i := 0; i < n; i++ {
		var deps []string
		for j := 0; j < n; j++ {
			if mask&(1<<uint(i*n+j)) != 0 {
				deps = append(deps, taskNames[j])
			}
		}
		g[taskNames[i]] = deps
	}
	return g
}

func isDAG(g map[string][]string) bool {
	state := map[string]int{}
	var visit func(n string) bool
	visit = func(n string) bool {
		switch state[n] {
		case 1:
			return false
		case 2:
			return true
		}
		state[n] = 1
		for _, d := range g[n] {
			if !visit(d) {
				return false
			}
		}
		state[n] = 2
		return true
	}
	names := make([]string, 0, len(g))
	for n := range g {
		names = append(names, n)
	}
	sort.Strings(names)
	for _, n := range names {
		if !visit(n) {
			return false
		}
	}
	return true
}

func graphString(g map[string][]string) string {
	var ts []string
	for t, d := range g {
		s := t
		if len(d) > 0 {
			s += "<-" + strings.Join(d, "+")
		}
		ts = append(ts, s)
	}
	sort.Strings(ts)
	return strings.Join(ts, " ")
}

// allDigraphs enumerates every labelled digraph (with self-loops) on exactly n nodes
func allDigraphs(n int) []map[string][]string {
	var res []map[string][]string
	for m := uint64(0); m < 1<<uint(n*n); m++ {
		res = append(res, digraph(n, m))
	}
	return res
}

func allDAGs(n int) []map[string][]string {
	var res []map[string][]string
	for _, g := range allDigraphs(n) {
		if isDAG(g) {
			res = append(res, g)
		}
	}
	return res
}

func permutations(xs []string) [][]string {
	if len(xs) <= 1 {
		return [][]string{append([]string(nil), xs...)}
	}
	var res [][]string
	for i := range xs {
		rest := append(append([]string(nil), xs[:i]...), xs[i+1:]...)
		for _, p := range permutations(rest) {
			res = append(res, append([]string{xs[i]}, p...))
		}
	}
	return res
}

// withDuplicateDeps returns variants of g in which one dependency list names an entry twice
func withDuplicateDeps(g map[string][]string) []map[string][]string {
	var res []map[string][]string
	names := make([]string, 0, len(g))
	for n := range g {
		names = append(names, n)
	}
	sort.Strings(names)
	for _, n := range names {
		if len(g[n]) == 0 {
			continue
		}
		v := map[string][]string{}
		for k, d := range g {
			v[k] = append([]string(nil), d...)
		}
		v[n] = append(append([]string(nil), g[n]...), g[n][0])
		res = append(res, v)
	}
	return res
}

// withDiamonds hangs a diamond (n -> n_u, n_v -> n_w) below every task of g. The upstream cycle detector
// reports a false cycle when an edge is added ABOVE an existing diamond, i.e. whenever stages are not fed
// to it in dependency order - so these graphs turn every ordering slip into a rejected acyclic graph.
func withDiamonds(g map[string][]string) map[string][]string {
	res := map[string][]string{}
	for n, deps := range g {
		res[n] = append([]string(nil), deps...)
		res[n+"_u"] = []string{n}
		res[n+"_v"] = []string{n}
		res[n+"_w"] = []string{n + "_u", n + "_v"}
	}
	return res
}

// checkAccepted: the graph (in the order the runner would feed it) is accepted by the graph builder
func checkAccepted(g map[string][]string) []Violation {
	tasks := map[string]definition.TaskDef{}
	var names []string
	for t, d := range g {
		tasks[t] = definition.TaskDef{Script: []string{"x"}, DependsOn: d}
		names = append(names, t)
	}
	sort.Strings(names)
	var vs []Violation
	rev := make([]string, len(names))
	for i := range names {
		rev[len(names)-1-i] = names[i]
	}
	for _, input := range [][]string{names, rev} {
		order := prunner.VerifSortTasks(tasks, input)
		var stages []*scheduler.Stage
		for _, t := range order {
			stages = append(stages, &scheduler.Stage{Name: t, Task: task.FromCommands("x"), DependsOn: g[t]})
		}
		if _, err := scheduler.NewExecutionGraph(stages...); err != nil {
			vs = append(vs, Violation{Property: "C02", Rule: "dag-accepted", Norm: "acyclic-graph-rejected",
				Msg: fmt.Sprintf("acyclic graph {%s} is rejected by the graph builder when its tasks are fed in the runner's order %v: %v", graphString(g), order, err)})
			break
		}
	}
	return vs
}

// checkSortAndCycle: the reported task order must be a topological order, identical for every
// permutation of the input, and feeding it to the upstream graph builder must not report a cycle.
func checkSortAndCycle(g map[string][]string) []Violation {
	var vs []Violation
	tasks := map[string]definition.TaskDef{}
	var names []string
	for t, d := range g {
		tasks[t] = definition.TaskDef{Script: []string{"x"}, DependsOn: d}
		names = append(names, t)
	}
	sort.Strings(names)
	var first []string
	perms := permutations(names)
	if len(names) >= 5 {
		// 120 permutations x 29281 DAGs is too much: identity, reverse and the rotations
		perms = nil
		for r := 0; r < len(names); r++ {
			p := append(append([]string(nil), names[r:]...), names[:r]...)
			perms = append(perms, p)
			rev := make([]string, len(p))
			for i := range p {
				rev[len(p)-1-i] = p[i]
			}
			perms = append(perms, rev)
		}
	}
	for _, perm := range perms {
		got := prunner.VerifSortTasks(tasks, perm)
		if first == nil {
			first = got
		} else if strings.Join(first, ",") != strings.Join(got, ",") {
			vs = append(vs, Violation{Property: "C15", Rule: "task-order-deterministic", Norm: "task-order-depends-on-input-order",
				Msg: fmt.Sprintf("graph {%s}: reported task order is %v for input order %v but %v for another input order", graphString(g), got, perm, first)})
			break
		}
	}
	pos := map[string]int{}
	for i, t := range first {
		pos[t] = i
	}
	for t, deps := range g {
		for _, d := range deps {
			if pos[d] >= pos[t] {
				vs = append(vs, Violation{Property: "C15", Rule: "task-order-topological", Norm: "task-listed-before-dependency",
					Msg: fmt.Sprintf("graph {%s}: task %s is listed before its dependency %s: %v", graphString(g), t, d, first)})
				// The same order is what the runner feeds to the upstream graph builder, whose cycle detector is only
				// free of false positives when every stage is added after its dependencies (adding an edge ABOVE an
				// existing diamond is reported as a cycle). Acceptance of EVERY acyclic graph cannot be enumerated; it
				// rests on this order being topological, so a non-topological order is reported under C02 as well.
				vs = append(vs, Violation{Property: "C02", Rule: "dag-accepted", Norm: "stages-fed-out-of-dependency-order",
					Msg: fmt.Sprintf("graph {%s}: the runner feeds task %s to the graph builder before its dependency %s (order %v); the builder's cycle detector then rejects acyclic graphs that have a diamond below %s", graphString(g), t, d, first, t)})
			}
		}
	}
	// upstream cycle detector on the sorted order (what buildPipelineGraph does)
	var stages []*scheduler.Stage
	for _, t := range first {
		stages = append(stages, &scheduler.Stage{Name: t, Task: task.FromCommands("x"), DependsOn: g[t]})
	}
	if _, err := scheduler.NewExecutionGraph(stages...); err != nil {
		vs = append(vs, Violation{Property: "C02", Rule: "dag-accepted", Norm: "acyclic-graph-rejected",
			Msg: fmt.Sprintf("acyclic graph {%s} in reported order %v is rejected by the graph builder: %v", graphString(g), first, err)})
	}
	return vs
}
