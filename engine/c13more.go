package main

// Free-running race-build scenarios beyond the task runner: the HTTP handlers (concurrent requests with and without
// a valid token against jobs that change state), the restart path (a store that holds unfinished jobs), and jobs that
// write to the file output store at the same moment. The race detector judges by happens-before, so executing both
// sides of a pair once is enough; what is enumerated is the set of pairs (routes x credential classes, restart
// populations, writers).

import (
	"bytes"
	"context"
	"fmt"
	"io"
	"net/http"
	"net/http/httptest"
	"os"
	"path/filepath"
	"sync"
	"sync/atomic"
	"time"

	"github.com/Flowpack/prunner"
	"github.com/Flowpack/prunner/server"
	"github.com/Flowpack/prunner/store"
	"github.com/Flowpack/prunner/taskctl"
	"github.com/go-chi/jwtauth/v5"
	"github.com/taskctl/taskctl/pkg/variables"
)

func badTokens() map[string]string {
	other := jwtauth.New("HS256", []byte("another secret, not the configured one"), nil)
	_, wrong, _ := other.Encode(map[string]interface{}{"sub": "verif", "exp": time.Now().Add(time.Hour).Unix()})
	_, expired, _ := jwtauth.New("HS256", []byte(jwtSecret), nil).Encode(map[string]interface{}{"sub": "verif", "exp": time.Now().Add(-time.Hour).Unix()})
	return map[string]string{"wrongly-signed": wrong, "expired": expired, "garbage": "not.a.token", "missing": ""}
}

// runHTTPConcurrent drives the real HTTP handlers from several clients at once: clients with a valid token list jobs,
// read details and schedule while jobs start, run and finish; clients without a valid token send the same requests.
// Verdicts: a request without a valid token is answered 401 and schedules nothing, however it overlaps with valid
// ones (C14); in the race build the detector additionally reports unsynchronised accesses (C13 / C14).
func runHTTPConcurrent(prop string) procxResult {
	res := procxResult{prop: prop}
	defs := mkDefs(map[string]PipeCfg{"w": {Conc: 4, QL: -1, Graph: map[string][]string{"a": nil, "b": {"a"}, "c": nil}, Script: map[string][]string{"a": {"true"}, "b": {"true"}, "c": {"sleep 0.02"}}}})
	pw := newProcWorld(defs, 0)
	defer pw.close()
	rounds := 60
	var accepted, unauthorizedOK int64
	do := func(method, url, token, transport, body string) int {
		req := httptest.NewRequest(method, url, bytes.NewBufferString(body))
		if token != "" {
			if transport == "cookie" {
				req.AddCookie(&http.Cookie{Name: "jwt", Value: token})
			} else {
				req.Header.Set("Authorization", "Bearer "+token)
			}
		}
		rec := httptest.NewRecorder()
		pw.h.ServeHTTP(rec, req)
		io.Copy(io.Discard, rec.Body)
		return rec.Code
	}
	var wg sync.WaitGroup
	stop := make(chan struct{})
	valid := validToken()
	// valid clients
	for c := 0; c < 3; c++ {
		c := c
		wg.Add(1)
		go func() {
			defer wg.Done()
			for i := 0; i < rounds; i++ {
				switch (i + c) % 4 {
				case 0:
					if do("POST", "/pipelines/schedule", valid, "header", `{"pipeline":"w"}`) == 202 {
						atomic.AddInt64(&accepted, 1)
					}
				case 1:
					do("GET", "/pipelines/jobs", valid, "cookie", "")
				case 2:
					do("GET", "/pipelines", valid, "header", "")
				case 3:
					var id string
					pw.r.IterateJobs(func(j *prunner.PipelineJob) { id = j.ID.String() })
					if id != "" {
						do("GET", "/job/detail?id="+id, valid, "header", "")
						do("GET", "/job/logs?id="+id+"&task=a", valid, "header", "")
					}
				}
			}
		}()
	}
	// clients without a valid token: the same requests, every credential class, both transports
	var badMu sync.Mutex
	bad := map[string]int{}
	for name, tok := range badTokens() {
		for _, transport := range []string{"header", "cookie"} {
			name, tok, transport := name, tok, transport
			wg.Add(1)
			go func() {
				defer wg.Done()
				for i := 0; i < rounds; i++ {
					select {
					case <-stop:
						return
					default:
					}
					var code int
					what := ""
					switch i % 3 {
					case 0:
						what = "POST /pipelines/schedule"
						code = do("POST", "/pipelines/schedule", tok, transport, `{"pipeline":"w"}`)
					case 1:
						what = "GET /pipelines/jobs"
						code = do("GET", "/pipelines/jobs", tok, transport, "")
					case 2:
						what = "GET /pipelines"
						code = do("GET", "/pipelines", tok, transport, "")
					}
					if code != 401 {
						atomic.AddInt64(&unauthorizedOK, 1)
						badMu.Lock()
						bad[fmt.Sprintf("%s with a %s token (%s) answered %d", what, name, transport, code)]++
						badMu.Unlock()
					}
				}
			}()
		}
	}
	wg.Wait()
	close(stop)
	// let the jobs finish
	deadline := time.Now().Add(60 * time.Second)
	for time.Now().Before(deadline) {
		running := false
		pw.r.IterateJobs(func(j *prunner.PipelineJob) {
			if !j.Completed && !j.Canceled {
				running = true
			}
		})
		if !running {
			break
		}
		time.Sleep(5 * time.Millisecond)
	}
	n := 0
	pw.r.IterateJobs(func(j *prunner.PipelineJob) { n++ })
	res.Cases = rounds * (3 + 8)
	res.Distinct = 3*4 + 8*3
	if prop == "C14" {
		for k, c := range bad {
			res.add("concurrent-unauthorized-request-accepted", fmt.Sprintf("while requests with a valid token are served at the same time: %s (%d times)", k, c))
		}
		if int64(n) != atomic.LoadInt64(&accepted) {
			res.add("concurrent-unauthorized-request-has-effect", fmt.Sprintf("%d jobs exist, the clients with a valid token had %d requests accepted", n, accepted))
		}
	}
	res.Samples = append(res.Samples, fmt.Sprintf("HTTP handlers, 3 clients with a valid token (schedule / list / detail / logs) against 8 clients without (4 credential classes x header, cookie), %d rounds each; %d jobs ran", rounds, n))
	return res
}

// runRestartRace starts runners on stores that hold unfinished jobs of an earlier process (what a crash leaves) next
// to finished ones, lets the persist loop and the API run, and shuts them down: the restart path under the detector.
func runRestartRace() procxResult {
	res := procxResult{prop: "C13"}
	for _, pop := range []struct {
		name               string
		finished, running_ int
	}{{"one-running", 0, 1}, {"running-first-then-300-finished", 300, 2}, {"finished-only", 50, 0}} {
		d := &store.PersistedData{}
		base := time.Now().Add(-time.Hour)
		for i := 0; i < pop.running_+pop.finished; i++ {
			st := base.Add(time.Duration(i) * time.Second)
			en := st.Add(time.Second)
			j := store.PersistedJob{ID: jobUUID(i + 1), Pipeline: "w", Created: st, Start: &st,
				Tasks: []store.PersistedTask{{Name: "a", Script: []string{"true"}, Status: "running", Start: &st}, {Name: "b", Script: []string{"true"}, DependsOn: []string{"a"}, Status: "waiting"}}}
			if i >= pop.running_ {
				j.Completed = true
				j.End = &en
				j.Tasks[0].Status, j.Tasks[0].End = "done", &en
				j.Tasks[1].Status, j.Tasks[1].Start, j.Tasks[1].End = "done", &st, &en
			} else if i%2 == 1 {
				j.Start = nil // was waiting
				j.Tasks[0].Status, j.Tasks[0].Start = "waiting", nil
			}
			d.Jobs = append(d.Jobs, j)
		}
		dir, err := os.MkdirTemp("", "verif-c13r-")
		if err != nil {
			panic(err)
		}
		ds, err := store.NewJSONDataStore(dir)
		if err != nil {
			panic(err)
		}
		if err := ds.Save(d); err != nil {
			panic(err)
		}
		out, _ := taskctl.NewOutputStore(filepath.Join(dir, "logs"))
		ctx, cancel := context.WithCancel(context.Background())
		defs := mkDefs(map[string]PipeCfg{"w": {Conc: 2, QL: -1, Graph: graphChain, Script: map[string][]string{"a": {"true"}, "b": {"true"}}}})
		r, err := prunner.NewPipelineRunner(ctx, defs, func(j *prunner.PipelineJob) taskctl.Runner {
			tr, _ := taskctl.NewTaskRunner(out, taskctl.WithEnv(variables.FromMap(j.Env)))
			tr.Stdout, tr.Stderr = io.Discard, io.Discard
			return tr
		}, ds, out)
		if err != nil {
			panic(err)
		}
		// whatever the start leaves running in the background (the persist loop) gets to run before the first API call:
		// a lock hand-off from this goroutine would otherwise order the loader's writes before it
		time.Sleep(150 * time.Millisecond)
		// then the API is used, as a server would
		var wg sync.WaitGroup
		for k := 0; k < 2; k++ {
			wg.Add(1)
			go func() {
				defer wg.Done()
				for i := 0; i < 20; i++ {
					r.IterateJobs(func(j *prunner.PipelineJob) {})
					r.ListPipelines()
				}
			}()
		}
		j, _ := r.ScheduleAsync("w", prunner.ScheduleOpts{})
		wg.Wait()
		if j != nil {
			dl := time.Now().Add(30 * time.Second)
			for time.Now().Before(dl) {
				done := false
				_ = r.ReadJob(j.ID, func(pj *prunner.PipelineJob) { done = pj.Completed || pj.Canceled })
				if done {
					break
				}
				time.Sleep(2 * time.Millisecond)
			}
		}
		r.SaveToStore()
		cancel()
		time.Sleep(20 * time.Millisecond)
		os.RemoveAll(dir)
		res.Cases++
		res.Distinct++
	}
	res.Samples = append(res.Samples, "restart under the race detector: stores with {one running job, unfinished jobs ahead of 300 finished ones, finished jobs only}; API readers, a new job and a save right after the start")
	return res
}

// runWritersRace: many jobs whose tasks open their log files at the same moment (real task runner, real file store)
func runWritersRace(prop string) procxResult {
	res := procxResult{prop: prop}
	g := map[string][]string{}
	sc := map[string][]string{}
	for t := 0; t < 4; t++ {
		n := fmt.Sprintf("t%d", t)
		g[n] = nil
		sc[n] = []string{fmt.Sprintf("printf 'out-%s-{{ .k }};'", n), fmt.Sprintf("printf 'err-%s-{{ .k }};' >&2", n)}
	}
	defs := mkDefs(map[string]PipeCfg{"fan": {Conc: 12, QL: -1, Graph: g, Script: sc}})
	for round := 0; round < 4; round++ {
		pw := newProcWorld(defs, 0)
		var jobs []*prunner.PipelineJob
		var mu sync.Mutex
		var wg sync.WaitGroup
		for i := 0; i < 12; i++ {
			i := i
			wg.Add(1)
			go func() {
				defer wg.Done()
				j, err := pw.r.ScheduleAsync("fan", prunner.ScheduleOpts{Variables: map[string]interface{}{"k": fmt.Sprintf("r%dj%d", round, i)}})
				if err == nil {
					mu.Lock()
					jobs = append(jobs, j)
					mu.Unlock()
				}
			}()
		}
		wg.Wait()
		for _, j := range jobs {
			v, ok := pw.wait(j.ID, 60*time.Second)
			if !ok {
				res.inconclusive("fan-out job did not finish within 60s")
				continue
			}
			k := fmt.Sprint(v.Variables["k"])
			for t := 0; t < 4; t++ {
				n := fmt.Sprintf("t%d", t)
				res.Cases++
				so, err1 := pw.output(j.ID, n, "stdout")
				se, err2 := pw.output(j.ID, n, "stderr")
				if prop != "C19" {
					continue
				}
				if err1 != nil || err2 != nil || string(so) != "out-"+n+"-"+k+";" || string(se) != "err-"+n+"-"+k+";" {
					res.add("concurrent-writers-output", fmt.Sprintf("12 jobs started at once: task %s of job %s has stdout %q (err %v) stderr %q (err %v), its commands wrote %q / %q", n, k, so, err1, se, err2, "out-"+n+"-"+k+";", "err-"+n+"-"+k+";"))
				}
			}
		}
		pw.close()
	}
	res.Distinct = 48
	res.Samples = append(res.Samples, "4 rounds of 12 jobs x 4 parallel tasks x 2 streams started at the same moment on one file output store")
	return res
}

var _ = server.NewServer
