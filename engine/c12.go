package main

// c12.go (RET): retention. Populations are built through the real API along X2 histories with
// Save events; after every save the reference retention rules, the agreement between API, store
// and log directories, and the integrity of the kept logs are checked.

import (
	"crypto/sha1"
	"fmt"
	"os"
	"path/filepath"
	"sort"
	"strings"
	"time"

	"github.com/Flowpack/prunner/store"
	"github.com/Flowpack/prunner/taskctl"
)

const retP = time.Hour

// logDirState maps job id -> hash of all files of its log directory
func logDirState(dir string) map[string]string {
	res := map[string]string{}
	ents, err := os.ReadDir(dir)
	if err != nil {
		return res
	}
	for _, e := range ents {
		if !e.IsDir() {
			continue
		}
		h := sha1.New()
		files, _ := os.ReadDir(filepath.Join(dir, e.Name()))
		for _, f := range files {
			b, _ := os.ReadFile(filepath.Join(dir, e.Name(), f.Name()))
			fmt.Fprintf(h, "%s:%d:", f.Name(), len(b))
			h.Write(b)
		}
		res[e.Name()] = fmt.Sprintf("%x", h.Sum(nil))
	}
	return res
}

func monC12(w *World, pre, post *Dump, ev XEvent, logsBefore, logsAfter map[string]string, now time.Duration) []Violation {
	var vs []Violation
	add := func(norm, msg string) {
		for _, v := range vs {
			if v.Norm == norm {
				return
			}
		}
		vs = append(vs, Violation{Property: "C12", Rule: "retention", Norm: norm, Msg: msg})
	}
	if ev.Kind != "Save" || pre == nil || post == nil || pre.Defs == nil {
		return nil
	}
	ctxt := fmt.Sprintf("before: %s; after: %s", pre.Short(), post.Short())
	removed := map[int]*DJob{}
	for i := range pre.Jobs {
		j := &pre.Jobs[i]
		if post.Job(j.Idx) == nil {
			removed[j.Idx] = j
		}
	}
	finished := func(j *DJob) bool { return !(j.Start == nilDur && !j.Canceled) && (j.Completed || j.Canceled) }
	byPipe := map[string][]*DJob{}
	for i := range pre.Jobs {
		byPipe[pre.Jobs[i].Pipeline] = append(byPipe[pre.Jobs[i].Pipeline], &pre.Jobs[i])
	}
	for p, jobs := range byPipe {
		pd, defined := pre.Defs.Pipelines[p]
		if !defined {
			for _, j := range jobs {
				if removed[j.Idx] == nil {
					add("undefined-pipeline-job-kept", fmt.Sprintf("job %d of pipeline %s, which is no longer defined, survives a save; %s", j.Idx, p, ctxt))
				}
			}
			continue
		}
		sort.Slice(jobs, func(a, b int) bool { return jobs[a].Created > jobs[b].Created }) // newest first
		keptFinished := 0
		olderRemoved := false
		_ = olderRemoved
		var newestRemovedFinished *DJob
		for _, j := range jobs {
			rm := removed[j.Idx] != nil
			if !finished(j) {
				if rm {
					add("unfinished-job-removed", fmt.Sprintf("job %d (%s) is waiting or running and was removed by a save; %s", j.Idx, jobStr(j), ctxt))
				}
				continue
			}
			if pd.RetentionCount == 0 && pd.RetentionPeriod == 0 && rm {
				add("removed-without-retention-settings", fmt.Sprintf("pipeline %s has no retention settings but job %d was removed by a save; %s", p, j.Idx, ctxt))
			}
			if !rm {
				keptFinished++
				if newestRemovedFinished != nil {
					add("older-finished-job-kept-while-newer-removed", fmt.Sprintf("finished job %d is kept although the newer finished job %d was removed; %s", j.Idx, newestRemovedFinished.Idx, ctxt))
				}
				if pd.RetentionPeriod > 0 && now-j.Created > pd.RetentionPeriod+time.Millisecond {
					add("job-older-than-period-kept", fmt.Sprintf("finished job %d is %v old (retention_period %v) and survives a save; %s", j.Idx, now-j.Created, pd.RetentionPeriod, ctxt))
				}
			} else if newestRemovedFinished == nil {
				newestRemovedFinished = j
			}
		}
		if pd.RetentionCount > 0 && keptFinished > pd.RetentionCount {
			add("more-than-count-kept", fmt.Sprintf("%d finished jobs of pipeline %s remain after a save, retention_count is %d; %s", keptFinished, p, pd.RetentionCount, ctxt))
		}
	}
	// the three views agree
	if w.Store != nil && len(w.Store.saves) > 0 {
		last := w.Store.saves[len(w.Store.saves)-1]
		inStore := map[int]bool{}
		for _, pj := range last.Jobs {
			inStore[jobIndex(pj.ID)] = true
		}
		for i := range post.Jobs {
			if !inStore[post.Jobs[i].Idx] {
				add("api-job-not-in-store", fmt.Sprintf("job %d is reported by the API after the save but is not in the saved snapshot", post.Jobs[i].Idx))
			}
			delete(inStore, post.Jobs[i].Idx)
		}
		for idx := range inStore {
			add("store-job-not-in-api", fmt.Sprintf("job %d is in the saved snapshot but not reported by the API after the save", idx))
		}
	}
	if logsBefore != nil {
		// every log directory belongs to a job the API reports: logs of purged jobs do not stay behind
		reported := map[string]bool{}
		for i := range post.Jobs {
			reported[jobUUID(post.Jobs[i].Idx).String()] = true
		}
		for id := range logsAfter {
			if !reported[id] {
				add("orphaned-log-directory", fmt.Sprintf("after the save the log directory of job %s still exists but the API does not report that job", shortID(id)))
			}
		}
		for idx, j := range removed {
			id := jobUUID(idx).String()
			if _, ok := logsAfter[id]; ok {
				add("logs-of-removed-job-remain", fmt.Sprintf("job %d was removed by the save but its log directory still exists", j.Idx))
			}
		}
		for i := range post.Jobs {
			id := jobUUID(post.Jobs[i].Idx).String()
			if b, ok := logsBefore[id]; ok {
				if a, ok2 := logsAfter[id]; !ok2 {
					add("logs-of-kept-job-deleted", fmt.Sprintf("job %d (%s) is kept by the save but its log directory was deleted", post.Jobs[i].Idx, jobStr(&post.Jobs[i])))
				} else if a != b {
					add("logs-of-kept-job-changed", fmt.Sprintf("job %d is kept by the save but its logs changed", post.Jobs[i].Idx))
				}
			}
		}
	}
	return vs
}

// initialPopulation: jobs "loaded from an earlier run"
func initialPopulation() *store.PersistedData {
	base := time.Date(2030, 1, 1, 0, 0, 0, 0, time.UTC) // the virtual time origin
	old := base.Add(-2 * time.Hour)
	oldEnd := old.Add(time.Minute)
	recent := base.Add(-12 * time.Minute)
	mk := func(idx int, p string, created time.Time, completed, canceled bool, start, end *time.Time) store.PersistedJob {
		return store.PersistedJob{ID: jobUUID(idx), Pipeline: p, Created: created, Completed: completed, Canceled: canceled, Start: start, End: end,
			Tasks: []store.PersistedTask{{Name: "a", Script: []string{"run a"}, Status: "done"}}}
	}
	at := func(min int) time.Time { return base.Add(-time.Duration(min) * time.Minute) }
	fin := func(idx int, p string, min int) store.PersistedJob {
		c := at(min)
		e := c.Add(time.Minute)
		return mk(idx, p, c, true, false, &c, &e)
	}
	// finished jobs in an order that is neither oldest-first nor newest-first (a store written by an
	// earlier version, or after removals, has no particular order)
	return &store.PersistedData{Jobs: []store.PersistedJob{
		fin(904, "p", 50),
		fin(905, "p", 10),
		mk(901, "p", old, true, false, &old, &oldEnd),
		fin(906, "p", 40),
		mk(902, "p", recent, false, false, &recent, nil), // was running when the earlier process died
		fin(907, "p", 20),
		mk(903, "q", old, true, false, &old, &oldEnd),
		fin(908, "q", 30),
		fin(909, "q", 5),
		fin(910, "gone", 15), // its pipeline is not defined any more when the runner starts
	}}
}

type retConfig struct {
	name    string
	count   int
	period  time.Duration
	initial bool
}

func c12Configs(tier string) []*X2Config {
	var res []*X2Config
	depth := 6
	if tier == "thorough" {
		depth = 7
	}
	for _, count := range []int{0, 1, 2} {
		for _, period := range []time.Duration{0, retP} {
			for _, initial := range []bool{false, true} {
				d := depth
				if initial {
					d = depth - 1 // the population is already there
				}
				p := PipeCfg{Conc: 2, QL: -1, Graph: graphOne, RetCount: count, RetPeriod: period}
				q := PipeCfg{Conc: 1, QL: -1, Graph: graphOne, RetCount: count, RetPeriod: period}
				full := mkDefs(map[string]PipeCfg{"p": p, "q": q})
				onlyP := mkDefs(map[string]PipeCfg{"p": p})
				c := &X2Config{
					Name:         fmt.Sprintf("C12/count=%d period=%v initial=%v", count, period, initial),
					DefsOverride: []*definitionPipelinesDef{full, onlyP},
					Pipes:        []string{"p", "q"},
					Depth:        d, FailOK: true, Cancel: true, Reload: true, Save: true, Symmetry: false,
					AdvSteps: []time.Duration{retP/2 + time.Minute},
					Props:    props("C12"),
					LogDir:   true,
				}
				if initial {
					c.Initial = initialPopulation()
				}
				res = append(res, c)
				if count == 1 && !initial {
					// the same with saves whose write to the store fails: whatever such a save did to the runner state, the
					// next save that succeeds leaves API, store and log directories in agreement
					f := *c
					f.Name += " with failing saves"
					f.SaveFail = true
					f.Reload = false
					f.Cancel = false
					f.DefsOverride = []*definitionPipelinesDef{full}
					res = append(res, &f)
				}
			}
		}
	}
	return res
}

var _ taskctl.OutputStore = (*taskctl.FileOutputStore)(nil)
var _ = strings.Join
