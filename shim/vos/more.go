package vos

// The rest of the exported surface of "os", passed through, so that ordinary edits to the instrumented files keep
// compiling (a seeded change used os.ModeSymlink and the build failed instead of giving a verdict).

import (
	"io/fs"
	"os"
	"time"
)

const (
	SEEK_SET = os.SEEK_SET
	SEEK_CUR = os.SEEK_CUR
	SEEK_END = os.SEEK_END

	PathSeparator     = os.PathSeparator
	PathListSeparator = os.PathListSeparator
	DevNull           = os.DevNull

	ModeDir        = fs.ModeDir
	ModeAppend     = fs.ModeAppend
	ModeExclusive  = fs.ModeExclusive
	ModeTemporary  = fs.ModeTemporary
	ModeSymlink    = fs.ModeSymlink
	ModeDevice     = fs.ModeDevice
	ModeNamedPipe  = fs.ModeNamedPipe
	ModeSocket     = fs.ModeSocket
	ModeSetuid     = fs.ModeSetuid
	ModeSetgid     = fs.ModeSetgid
	ModeCharDevice = fs.ModeCharDevice
	ModeSticky     = fs.ModeSticky
	ModeIrregular  = fs.ModeIrregular
	ModeType       = fs.ModeType
)

var (
	Stdin  = &File{f: os.Stdin}
	Stdout = &File{f: os.Stdout}
	Stderr = &File{f: os.Stderr}
	Args   = os.Args

	ErrProcessDone      = os.ErrProcessDone
	ErrNoDeadline       = os.ErrNoDeadline
	ErrDeadlineExceeded = os.ErrDeadlineExceeded

	Interrupt = os.Interrupt
	Kill      = os.Kill
)

type (
	LinkError    = os.LinkError
	ProcAttr     = os.ProcAttr
	Process      = os.Process
	ProcessState = os.ProcessState
	Signal       = os.Signal
	SyscallError = os.SyscallError
)

func Chdir(dir string) error                              { return os.Chdir(dir) }
func Chown(name string, uid, gid int) error               { return os.Chown(name, uid, gid) }
func Lchown(name string, uid, gid int) error              { return os.Lchown(name, uid, gid) }
func Chtimes(name string, a time.Time, m time.Time) error { return os.Chtimes(name, a, m) }
func Clearenv()                                           { os.Clearenv() }
func DirFS(dir string) fs.FS                              { return os.DirFS(dir) }
func Executable() (string, error)                         { return os.Executable() }
func Exit(code int)                                       { os.Exit(code) }
func Expand(s string, mapping func(string) string) string { return os.Expand(s, mapping) }
func ExpandEnv(s string) string                           { return os.ExpandEnv(s) }
func Getegid() int                                        { return os.Getegid() }
func Geteuid() int                                        { return os.Geteuid() }
func Getgid() int                                         { return os.Getgid() }
func Getgroups() ([]int, error)                           { return os.Getgroups() }
func Getpagesize() int                                    { return os.Getpagesize() }
func Getpid() int                                         { return os.Getpid() }
func Getppid() int                                        { return os.Getppid() }
func Getuid() int                                         { return os.Getuid() }
func Hostname() (string, error)                           { return os.Hostname() }
func IsPathSeparator(c uint8) bool                        { return os.IsPathSeparator(c) }
func IsPermission(err error) bool                         { return os.IsPermission(err) }
func IsTimeout(err error) bool                            { return os.IsTimeout(err) }
func LookupEnv(key string) (string, bool)                 { return os.LookupEnv(key) }
func NewSyscallError(syscall string, err error) error     { return os.NewSyscallError(syscall, err) }
func SameFile(fi1, fi2 FileInfo) bool                     { return os.SameFile(fi1, fi2) }
func Setenv(key, value string) error                      { return os.Setenv(key, value) }
func Unsetenv(key string) error                           { return os.Unsetenv(key) }
func UserCacheDir() (string, error)                       { return os.UserCacheDir() }
func UserConfigDir() (string, error)                      { return os.UserConfigDir() }
func UserHomeDir() (string, error)                        { return os.UserHomeDir() }
func FindProcess(pid int) (*Process, error)               { return os.FindProcess(pid) }
func StartProcess(n string, a []string, at *ProcAttr) (*Process, error) {
	return os.StartProcess(n, a, at)
}
func NewFile(fd uintptr, name string) *File {
	f := os.NewFile(fd, name)
	if f == nil {
		return nil
	}
	return &File{f: f}
}

func Pipe() (*File, *File, error) {
	r, w, err := os.Pipe()
	if err != nil {
		return nil, nil, err
	}
	return &File{f: r}, &File{f: w}, nil
}

func Readlink(name string) (string, error) {
	if err := point("readlink", name); err != nil {
		return "", err
	}
	return os.Readlink(name)
}

func MkdirTemp(dir, pattern string) (string, error) {
	if err := point("mkdirtemp", dir); err != nil {
		return "", err
	}
	d, err := os.MkdirTemp(dir, pattern)
	after("mkdirtemp", d)
	return d, err
}

func Truncate(name string, size int64) error {
	if err := point("truncate", name); err != nil {
		return err
	}
	err := os.Truncate(name, size)
	after("truncate", name)
	return err
}
