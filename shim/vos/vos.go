// Package vos stands in for "os" in the instrumented copy of store/store.go. It is a
// pass-through to the real file system that (a) makes every call a scheduling point when a
// controlled execution is active and (b) reports every completed call - and every prefix of a
// write at the cut points the harness asks for - to a hook, which is how every crash point of a
// save is enumerated.
package vos

import (
	"io/fs"
	"os"
	"path/filepath"
	"syscall"

	"github.com/Flowpack/prunner/zverif/vsched"
)

var (
	ErrNotExist   = os.ErrNotExist
	ErrExist      = os.ErrExist
	ErrPermission = os.ErrPermission
	ErrClosed     = os.ErrClosed
	ErrInvalid    = os.ErrInvalid
)

const (
	O_RDONLY = os.O_RDONLY
	O_WRONLY = os.O_WRONLY
	O_RDWR   = os.O_RDWR
	O_APPEND = os.O_APPEND
	O_CREATE = os.O_CREATE
	O_EXCL   = os.O_EXCL
	O_SYNC   = os.O_SYNC
	O_TRUNC  = os.O_TRUNC

	ModePerm = os.ModePerm
)

type (
	FileMode  = os.FileMode
	FileInfo  = os.FileInfo
	DirEntry  = os.DirEntry
	PathError = os.PathError
)

// Hooks is what the harness installs
type Hooks struct {
	// After is called after every completed call (a crash point: everything so far is on disk)
	After func(op string, path string)
	// Cuts returns the offsets (0 < c < n) at which a write of n bytes is split; after each
	// partial write After("write-partial", …) is called
	Cuts func(n int) []int
	// Fail, if it returns an error for a call about to be made, makes the call fail with it
	Fail func(op string, path string) error
}

// H is the installed hook set (nil: plain pass-through)
var H *Hooks

func point(op, path string) error {
	vsched.PointObj("os."+op, path)
	if H != nil && H.Fail != nil {
		return H.Fail(op, path)
	}
	return nil
}

func after(op, path string) {
	if H != nil && H.After != nil {
		H.After(op, path)
	}
}

// File wraps *os.File
type File struct {
	f *os.File
}

func wrap(f *os.File, err error) (*File, error) {
	if err != nil {
		return nil, err
	}
	return &File{f: f}, nil
}

func (f *File) Name() string { return f.f.Name() }
func (f *File) Fd() uintptr  { return f.f.Fd() }

func (f *File) Write(b []byte) (int, error) {
	if err := point("write", f.f.Name()); err != nil {
		return 0, err
	}
	done := 0
	if H != nil && H.Cuts != nil {
		for _, c := range H.Cuts(len(b)) {
			if c <= done || c >= len(b) {
				continue
			}
			n, err := f.f.Write(b[done:c])
			done += n
			if err != nil {
				return done, err
			}
			after("write-partial", f.f.Name())
		}
	}
	n, err := f.f.Write(b[done:])
	done += n
	after("write", f.f.Name())
	return done, err
}

func (f *File) WriteString(s string) (int, error) { return f.Write([]byte(s)) }

func (f *File) Read(b []byte) (int, error) {
	if err := point("read", f.f.Name()); err != nil {
		return 0, err
	}
	return f.f.Read(b)
}

func (f *File) Close() error {
	if err := point("close", f.f.Name()); err != nil {
		f.f.Close()
		return err
	}
	err := f.f.Close()
	after("close", f.f.Name())
	return err
}

func (f *File) Sync() error {
	if err := point("sync", f.f.Name()); err != nil {
		return err
	}
	err := f.f.Sync()
	after("sync", f.f.Name())
	return err
}

func (f *File) Stat() (FileInfo, error)            { return f.f.Stat() }
func (f *File) Seek(o int64, w int) (int64, error) { return f.f.Seek(o, w) }
func (f *File) Truncate(n int64) error {
	if err := point("truncate", f.f.Name()); err != nil {
		return err
	}
	err := f.f.Truncate(n)
	after("truncate", f.f.Name())
	return err
}
func (f *File) Chmod(m FileMode) error { return f.f.Chmod(m) }

func MkdirAll(path string, perm FileMode) error {
	if err := point("mkdirall", path); err != nil {
		return err
	}
	err := os.MkdirAll(path, perm)
	after("mkdirall", path)
	return err
}

func Mkdir(path string, perm FileMode) error {
	if err := point("mkdir", path); err != nil {
		return err
	}
	err := os.Mkdir(path, perm)
	after("mkdir", path)
	return err
}

func Open(name string) (*File, error) {
	if err := point("open", name); err != nil {
		return nil, err
	}
	return wrap(os.Open(name))
}

func Create(name string) (*File, error) {
	if err := point("create", name); err != nil {
		return nil, err
	}
	f, err := wrap(os.Create(name))
	after("create", name)
	return f, err
}

func OpenFile(name string, flag int, perm FileMode) (*File, error) {
	if err := point("openfile", name); err != nil {
		return nil, err
	}
	f, err := wrap(os.OpenFile(name, flag, perm))
	after("openfile", name)
	return f, err
}

func CreateTemp(dir, pattern string) (*File, error) {
	if err := point("createtemp", dir); err != nil {
		return nil, err
	}
	f, err := wrap(os.CreateTemp(dir, pattern))
	after("createtemp", dir)
	return f, err
}

// DataDirIsMountPoint: every directory is treated as a file system of its own - a rename between two directories
// fails with EXDEV, as it does when the data directory is a mounted volume and the other one is not
var DataDirIsMountPoint bool

func Rename(oldpath, newpath string) error {
	if err := point("rename", newpath); err != nil {
		return err
	}
	if DataDirIsMountPoint && filepath.Dir(filepath.Clean(oldpath)) != filepath.Dir(filepath.Clean(newpath)) {
		return &os.LinkError{Op: "rename", Old: oldpath, New: newpath, Err: syscall.EXDEV}
	}
	err := os.Rename(oldpath, newpath)
	after("rename", newpath)
	return err
}

func Remove(name string) error {
	if err := point("remove", name); err != nil {
		return err
	}
	err := os.Remove(name)
	after("remove", name)
	return err
}

func RemoveAll(name string) error {
	if err := point("removeall", name); err != nil {
		return err
	}
	err := os.RemoveAll(name)
	after("removeall", name)
	return err
}

func ReadFile(name string) ([]byte, error) {
	if err := point("readfile", name); err != nil {
		return nil, err
	}
	return os.ReadFile(name)
}

func WriteFile(name string, data []byte, perm FileMode) error {
	f, err := OpenFile(name, O_WRONLY|O_CREATE|O_TRUNC, perm)
	if err != nil {
		return err
	}
	_, err = f.Write(data)
	if err1 := f.Close(); err1 != nil && err == nil {
		err = err1
	}
	return err
}

// Stat, Lstat and ReadDir observe the directory: scheduling points (a rename of another thread can land between a Stat
// and the Open that follows it), no crash points
func Stat(name string) (FileInfo, error) {
	if err := point("stat", name); err != nil {
		return nil, err
	}
	return os.Stat(name)
}
func Lstat(name string) (FileInfo, error) {
	if err := point("lstat", name); err != nil {
		return nil, err
	}
	return os.Lstat(name)
}
func ReadDir(name string) ([]DirEntry, error) {
	if err := point("readdir", name); err != nil {
		return nil, err
	}
	return os.ReadDir(name)
}
func IsNotExist(err error) bool               { return os.IsNotExist(err) }
func IsExist(err error) bool                  { return os.IsExist(err) }
func Getwd() (string, error)                  { return os.Getwd() }
func TempDir() string                         { return os.TempDir() }
func Getenv(k string) string                  { return os.Getenv(k) }
func Environ() []string                       { return os.Environ() }
func Chmod(name string, m FileMode) error     { return os.Chmod(name, m) }
func Link(o, n string) error {
	if err := point("link", n); err != nil {
		return err
	}
	err := os.Link(o, n)
	after("link", n)
	return err
}
func Symlink(o, n string) error { return os.Symlink(o, n) }

var _ fs.FileMode
