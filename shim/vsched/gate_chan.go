//go:build !race

package vsched

// gate is the hand-off primitive between the explorer and the managed threads. In normal builds
// it is a channel.
type gate struct{ c chan struct{} }

func (g *gate) init()   { g.c = make(chan struct{}, 1) }
func (g *gate) signal() { g.c <- struct{}{} }
func (g *gate) wait()   { <-g.c }

// RaceBuild reports whether the harness was built with the race detector
const RaceBuild = false
