//go:build race

package vsched

import "runtime"

// gate in the race build: a spin on a plain word inside functions that the race detector does
// not instrument. The detector therefore sees NO happens-before edge from the checker's own
// hand-offs; the only edges it sees are those of the real primitives that the shims wrap (and
// which production code would have as well).
type gate struct{ w uint32 }

//go:norace
func (g *gate) init() { g.w = 0 }

//go:norace
func (g *gate) signal() { g.w = 1 }

//go:norace
func (g *gate) wait() {
	for g.w != 1 {
		runtime.Gosched()
	}
	g.w = 0
}

//go:norace
//go:noinline
func spinPause() {}

// RaceBuild reports whether the harness was built with the race detector
const RaceBuild = true
