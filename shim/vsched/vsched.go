// Package vsched is the controlled runtime of the prunner model checker.
//
// It is mounted into the prunner module by a build overlay as
// github.com/Flowpack/prunner/zverif/vsched. The instrumented copies of prunner.go and
// taskctl/scheduler.go reach it through the facade packages vsync, vtime and vatomic.
//
// Model: exactly one managed thread runs at a time. Every managed thread that does not run is
// parked inside a shim call with a *pending operation*. The explorer (which runs on its own,
// unmanaged goroutine) asks for the enabled threads, picks one, and lets it run until it parks
// again or exits. When no Sched is active (Cur()==nil) every shim falls through to the real
// primitive, so the same instrumented build can also run free.
package vsched

import (
	"fmt"
	"reflect"
	"runtime"
	"sort"
	"sync"
	"time"
)

// OpKind is the kind of a pending operation
type OpKind uint8

const (
	OpStart  OpKind = iota // freshly spawned thread
	OpPoint                // plain scheduling point, always enabled
	OpLock                 // Mutex.Lock / RWMutex.Lock
	OpRLock                // RWMutex.RLock
	OpWait                 // WaitGroup.Wait
	OpSleep                // Sleep(d) with d>0: enabled when the virtual clock reached the deadline
	OpSelect               // select / channel op
	OpFlag                 // harness park: enabled when *flag != 0
	OpFunc                 // harness park: enabled when fn() is true
	OpTimer                // goroutine of an AfterFunc timer: enabled once the timer has fired
)

var kindNames = [...]string{"start", "point", "lock", "rlock", "wgwait", "sleep", "select", "flag", "func", "timer"}

func (k OpKind) String() string { return kindNames[k] }

// Thread is a managed goroutine
type Thread struct {
	ID     int
	Name   string
	g      gate
	kind   OpKind
	obj    interface{} // *Mutex, *RWMutex, *WaitGroup, *selOp
	flag   *int32
	fn     func() bool
	until  int64
	label  string
	exited bool
	nchild int
	H      uint64 // happens-before fingerprint of everything this thread has observed
	Tag    string // free for the harness (role of the thread)
	rheld  map[*RWMutex]int // read locks this thread holds (recursive read locking, see Sched.LockHazard)
}

func (t *Thread) Pending() string { return t.kind.String() + ":" + t.label }
func (t *Thread) Kind() OpKind    { return t.kind }

// SleepUntil is the virtual time (ns since the origin) at which a sleeping thread wakes up
func (t *Thread) SleepUntil() int64 { return t.until }

// Timer is a virtual timer
type Timer struct {
	s        *Sched
	seq      int
	deadline int64
	f        func()
	C        chan time.Time
	fired    bool
	stopped  bool
	owner    string
	real     *time.Timer
	th       *Thread
	tracked  bool
}

// Sched is one controlled execution
type Sched struct {
	threads  []*Thread
	running  *Thread
	back     gate // thread -> explorer
	aborting bool
	external bool
	Steps    int

	base    time.Time
	elapsed int64 // virtual ns since base
	timers  []*Timer
	tseq    int

	objH map[interface{}]*uint64

	// OnUnlock is called (on the thread that unlocks) after a write-unlock of any lock; the
	// harness uses it to take dumps at the end of critical sections.
	OnUnlock func(obj interface{})
	// TraceH is the fingerprint of the totally ordered harness event log
	TraceH uint64

	Panic      interface{} // first panic of a managed thread
	// LockHazard describes the first state in which a thread that holds a read lock of an RWMutex is about to
	// read-lock it again while another thread is about to write-lock it. The shim grants locks in every order the
	// memory model allows and does not model that sync.RWMutex makes new readers wait once a writer has called Lock;
	// under that rule this very state deadlocks in production: the writer announces itself, the inner RLock waits
	// for the writer, the writer waits for the outer read lock ("recursive read locking" in the sync documentation).
	// Both steps are ordinary next steps of the two threads, so the deadlock is reachable, not hypothetical.
	LockHazard string
	PanicStack []byte
}

var (
	curMu sync.Mutex
	cur   *Sched
)

// Cur returns the active controlled execution or nil
//
//go:norace
func Cur() *Sched { return cur }

// New creates a controlled execution and makes it the active one
//
//go:norace
func New() *Sched {
	s := &Sched{
		base: time.Date(2030, 1, 1, 0, 0, 0, 0, time.UTC),
		objH: make(map[interface{}]*uint64),
	}
	s.back.init()
	cur = s
	return s
}

// Release makes s no longer the active execution
//
//go:norace
func (s *Sched) Release() {
	if cur == s {
		cur = nil
	}
}

//go:norace
func mix(a, b uint64) uint64 {
	x := a ^ (b + 0x9e3779b97f4a7c15 + (a << 6) + (a >> 2))
	x ^= x >> 33
	x *= 0xff51afd7ed558ccd
	x ^= x >> 33
	return x
}

//go:norace
func hashString(s string) uint64 {
	var h uint64 = 14695981039346656037
	for i := 0; i < len(s); i++ {
		h ^= uint64(s[i])
		h *= 1099511628211
	}
	return h
}

// HashString is exported for the harness
func HashString(s string) uint64 { return hashString(s) }

// Mix is exported for the harness
func Mix(a, b uint64) uint64 { return mix(a, b) }

// ---------------------------------------------------------------------------------------------
// threads

// Spawn creates a managed thread (parked at its start) from the explorer or from a managed thread
//
//go:norace
func (s *Sched) Spawn(name string, tag string, f func()) *Thread {
	t := &Thread{ID: len(s.threads), Name: name, kind: OpStart, label: name, Tag: tag}
	t.g.init()
	t.H = hashString(name)
	if p := s.running; p != nil {
		t.H = mix(t.H, p.H)
		p.H = mix(p.H, 0x5150)
	}
	s.threads = append(s.threads, t)
	go s.threadMain(t, f)
	return t
}

//go:norace
func (s *Sched) threadMain(t *Thread, f func()) {
	t.g.wait()
	defer s.threadExit(t)
	if s.aborting {
		return
	}
	f()
}

//go:norace
func (s *Sched) threadExit(t *Thread) {
	if r := recover(); r != nil {
		if s.Panic == nil {
			s.Panic = r
			buf := make([]byte, 8192)
			s.PanicStack = buf[:runtime.Stack(buf, false)]
		}
	}
	t.exited = true
	s.back.signal()
}

var freeWG sync.WaitGroup

// FreeTimeDivisor scales down real sleeps and timers of free-running (pass-through) code
var FreeTimeDivisor int64 = 1

func freeMain(f func()) {
	defer freeWG.Done()
	f()
}

func freeDur(d time.Duration) time.Duration {
	if FreeTimeDivisor > 1 && d > time.Millisecond {
		d = d / time.Duration(FreeTimeDivisor)
		if d < time.Millisecond {
			d = time.Millisecond
		}
	}
	return d
}

// WaitFree waits until every free-running goroutine started through Go has returned
func WaitFree(timeout time.Duration) bool {
	done := make(chan struct{})
	go func() { freeWG.Wait(); close(done) }()
	select {
	case <-done:
		return true
	case <-time.After(timeout):
		return false
	}
}

// Go is what a rewritten go statement calls
//
//go:norace
func Go(f func()) {
	s := cur
	if s != nil && s.aborting {
		return
	}
	if Active() == nil {
		// free-running: a real goroutine, tracked so that the harness can wait for stragglers
		// before it starts the next controlled execution
		freeWG.Add(1)
		go freeMain(f)
		return
	}
	p := s.running
	p.nchild++
	s.Spawn(fmt.Sprintf("%s/%d", p.Name, p.nchild), "", f)
	s.running = p
	// The child is enabled from now on. The parent does not park here: until its next scheduling
	// point it performs no visible operation, so every ordering of the child's first visible
	// operation against the parent's next one is still explored.
}

// park publishes the pending operation of the running thread and hands control to the explorer
//
//go:norace
func (s *Sched) park(t *Thread, kind OpKind, obj interface{}, label string) {
	t.kind, t.obj, t.label = kind, obj, label
	s.back.signal()
	t.g.wait()
	// every step a thread takes is part of its fingerprint (two consecutive plain points must not
	// look like the same state)
	t.H = mix(t.H, uint64(kind)+0x1000)
	if s.aborting {
		// unwind this goroutine; deferred shim calls are no-ops while aborting
		runtime.Goexit()
	}
}

// Me returns the running managed thread, or nil when the caller is not managed
//
//go:norace
func (s *Sched) Me() *Thread { return s.running }

// Active reports whether shim calls on this goroutine must be controlled
//
//go:norace
func Active() *Sched {
	s := cur
	if s == nil || s.running == nil || s.aborting || s.external {
		return nil
	}
	return s
}

// External runs f on the explorer goroutine with the shims in pass-through mode (all managed
// threads are parked; the real primitives are uncontended unless a parked thread holds one).
//
//go:norace
func (s *Sched) External(f func()) {
	s.external = true
	defer s.endExternal()
	f()
}

//go:norace
func (s *Sched) endExternal() { s.external = false }

// Aborting reports whether the active execution is being torn down (shim calls are no-ops then)
//
//go:norace
func Aborting() bool {
	s := cur
	return s != nil && s.aborting
}

// Point is a plain scheduling point
//
//go:norace
func Point(label string) {
	if s := Active(); s != nil {
		s.park(s.running, OpPoint, nil, label)
	}
}

// PointObj is a scheduling point for an operation on a named shared object (e.g. a file path):
// operations on the same object are ordered in the happens-before fingerprint.
//
//go:norace
func PointObj(label string, obj string) {
	if s := Active(); s != nil {
		t := s.running
		s.park(t, OpPoint, nil, label)
		h := s.oh("obj:" + obj)
		t.H = mix(t.H, *h)
		*h = mix(*h, t.H)
	}
}

// ParkFlag parks the running thread until *flag != 0
//
//go:norace
func (s *Sched) ParkFlag(flag *int32, label string) {
	t := s.running
	t.flag = flag
	s.park(t, OpFlag, nil, label)
}

// ParkFunc parks the running thread until fn() is true (fn is called on the explorer goroutine)
//
//go:norace
func (s *Sched) ParkFunc(fn func() bool, label string) {
	t := s.running
	t.fn = fn
	s.park(t, OpFunc, nil, label)
	t.fn = nil
}

// Touch folds an object into the happens-before fingerprint of the running thread (read+write)
//
//go:norace
func (s *Sched) Touch(obj interface{}) {
	t := s.running
	if t == nil {
		return
	}
	h := s.oh(obj)
	t.H = mix(t.H, *h)
	*h = mix(*h, t.H)
}

// TouchTrace orders the running thread after every earlier event of the harness log
//
//go:norace
func (s *Sched) TouchTrace(ev uint64) {
	t := s.running
	if t == nil {
		s.TraceH = mix(s.TraceH, ev)
		return
	}
	t.H = mix(mix(t.H, s.TraceH), ev)
	s.TraceH = mix(s.TraceH, t.H)
}

//go:norace
func (s *Sched) oh(obj interface{}) *uint64 {
	h := s.objH[obj]
	if h == nil {
		h = new(uint64)
		*h = uint64(len(s.objH) + 1)
		s.objH[obj] = h
	}
	return h
}

//go:norace
func (s *Sched) isEnabled(t *Thread) bool {
	if t.exited {
		return false
	}
	switch t.kind {
	case OpStart, OpPoint:
		return true
	case OpLock:
		switch m := t.obj.(type) {
		case *Mutex:
			return !m.held
		case *RWMutex:
			return !m.writer && m.readers == 0
		}
	case OpRLock:
		return !t.obj.(*RWMutex).writer
	case OpWait:
		return t.obj.(*WaitGroup).n == 0
	case OpSleep:
		return s.elapsed >= t.until
	case OpSelect:
		return t.obj.(*selOp).try()
	case OpFlag:
		return *t.flag != 0
	case OpFunc:
		return t.fn()
	case OpTimer:
		tm := t.obj.(*Timer)
		return tm.fired && !tm.stopped
	}
	return false
}

// Enabled returns the enabled threads in canonical order: the thread that ran last first (if it
// is still enabled), then ascending id.
//
//go:norace
func (s *Sched) Enabled() []*Thread {
	var res []*Thread
	if s.LockHazard == "" {
		for _, t := range s.threads {
			if t.exited || t.kind != OpRLock {
				continue
			}
			m, ok := t.obj.(*RWMutex)
			if !ok || t.rheld[m] == 0 || m.writer {
				continue
			}
			for _, w := range s.threads {
				if w != t && !w.exited && w.kind == OpLock && w.obj == interface{}(m) {
					s.LockHazard = "thread " + t.Name + " holds a read lock and is about to read-lock the same RWMutex again while thread " + w.Name + " is about to write-lock it: sync.RWMutex blocks new readers once a writer waits, the writer waits for the outer read lock - both block forever"
				}
			}
		}
	}
	if r := s.running; r != nil && s.isEnabled(r) {
		res = append(res, r)
	}
	for _, t := range s.threads {
		if t != s.running && s.isEnabled(t) {
			res = append(res, t)
		}
	}
	return res
}

// LastRan returns the thread that ran last (nil at the start or after ClearRunning)
//
//go:norace
func (s *Sched) LastRan() *Thread { return s.running }

// Step lets t run until it parks again or exits
//
//go:norace
func (s *Sched) Step(t *Thread) {
	s.Steps++
	s.running = t
	t.g.signal()
	s.back.wait()
	if t.exited && s.running == t {
		// keep s.running for preemption accounting; an exited thread is never enabled
	}
}

// Live returns all threads that have not exited
//
//go:norace
func (s *Sched) Live() []*Thread {
	var res []*Thread
	for _, t := range s.threads {
		if t.exited {
			continue
		}
		if t.kind == OpTimer {
			if tm := t.obj.(*Timer); tm.stopped || !tm.fired {
				continue
			}
		}
		res = append(res, t)
	}
	return res
}

// Threads returns all threads
//
//go:norace
func (s *Sched) Threads() []*Thread { return s.threads }

// Abort unwinds every parked thread, one at a time, and releases the execution
//
//go:norace
func (s *Sched) Abort() {
	// The unwinding goroutines ask the current scheduler whether it is aborting (their deferred shim calls must be
	// no-ops, a deferred Wait must not block): make this scheduler the current one while it tears down - another
	// world may have been created (and closed) since this one was.
	prev := cur
	cur = s
	defer func() {
		if prev != s {
			cur = prev
		}
	}()
	s.aborting = true
	for i := 0; i < len(s.threads); i++ { // threads may not grow while aborting, but be safe
		t := s.threads[i]
		if t.exited {
			continue
		}
		s.running = t
		t.g.signal()
		s.back.wait()
	}
	s.running = nil
	for _, tm := range s.timers {
		tm.stopped = true
	}
	s.Release()
}

// Key is the fingerprint of the current global state for happens-before pruning: per live thread
// its fingerprint and pending op, the trace fingerprint, the virtual clock relative to pending
// timers, and which thread ran last.
//
//go:norace
func (s *Sched) Key() uint64 {
	type ent struct {
		name string
		h    uint64
	}
	var es []ent
	for _, t := range s.threads {
		if t.exited {
			continue
		}
		es = append(es, ent{t.Name, mix(t.H, uint64(t.kind))})
	}
	sort.Slice(es, func(i, j int) bool { return es[i].name < es[j].name })
	var k uint64 = 0xabcdef
	for _, e := range es {
		k = mix(k, mix(hashString(e.name), e.h))
	}
	k = mix(k, s.TraceH)
	if s.running != nil && !s.running.exited {
		k = mix(k, hashString(s.running.Name))
	}
	for _, tm := range s.timers {
		if !tm.fired && !tm.stopped {
			k = mix(k, mix(uint64(tm.deadline-s.elapsed), hashString(tm.owner)))
		}
	}
	return k
}

// ---------------------------------------------------------------------------------------------
// locks

type Mutex struct {
	real sync.Mutex
	held bool
}

//go:norace
func (m *Mutex) Lock() {
	s := Active()
	if s == nil {
		if Aborting() {
			return
		}
		m.real.Lock()
		return
	}
	t := s.running
	s.park(t, OpLock, m, "mutex")
	m.held = true
	t.H = mix(t.H, *s.oh(m))
	m.real.Lock()
}

//go:norace
func (m *Mutex) Unlock() {
	s := Active()
	if s == nil {
		if Aborting() {
			return
		}
		m.real.Unlock()
		return
	}
	if s.OnUnlock != nil {
		// still holding the real lock: what the callback reads is ordered like the critical section
		s.OnUnlock(m)
	}
	m.real.Unlock()
	m.held = false
	h := s.oh(m)
	*h = mix(*h, s.running.H)
}

//go:norace
func (m *Mutex) TryLock() bool {
	s := Active()
	if s == nil {
		return m.real.TryLock()
	}
	s.park(s.running, OpPoint, nil, "trylock")
	if m.held {
		return false
	}
	m.held = true
	m.real.Lock()
	return true
}

type RWMutex struct {
	real    sync.RWMutex
	writer  bool
	readers int
}

//go:norace
func (m *RWMutex) Lock() {
	s := Active()
	if s == nil {
		if Aborting() {
			return
		}
		m.real.Lock()
		return
	}
	t := s.running
	s.park(t, OpLock, m, "rw.Lock")
	m.writer = true
	t.H = mix(t.H, *s.oh(m))
	m.real.Lock()
}

//go:norace
func (m *RWMutex) Unlock() {
	s := Active()
	if s == nil {
		if Aborting() {
			return
		}
		m.real.Unlock()
		return
	}
	if s.OnUnlock != nil {
		// still holding the real lock: what the callback reads is ordered like the critical section
		s.OnUnlock(m)
	}
	m.real.Unlock()
	m.writer = false
	h := s.oh(m)
	*h = mix(*h, s.running.H)
}

//go:norace
func (m *RWMutex) RLock() {
	s := Active()
	if s == nil {
		if Aborting() {
			return
		}
		m.real.RLock()
		return
	}
	t := s.running
	s.park(t, OpRLock, m, "rw.RLock")
	m.readers++
	if t.rheld == nil {
		t.rheld = map[*RWMutex]int{}
	}
	t.rheld[m]++
	t.H = mix(t.H, *s.oh(m))
	m.real.RLock()
}

//go:norace
func (m *RWMutex) RUnlock() {
	s := Active()
	if s == nil {
		if Aborting() {
			return
		}
		m.real.RUnlock()
		return
	}
	m.real.RUnlock()
	m.readers--
	if t := s.running; t != nil && t.rheld[m] > 0 {
		t.rheld[m]--
	}
	h := s.oh(m)
	*h = mix(*h, s.running.H)
}

func (m *RWMutex) TryLock() bool  { return m.real.TryLock() }
func (m *RWMutex) TryRLock() bool { return m.real.TryRLock() }
func (m *RWMutex) RLocker() sync.Locker {
	return (*rlocker)(m)
}

type rlocker RWMutex

func (r *rlocker) Lock()   { (*RWMutex)(r).RLock() }
func (r *rlocker) Unlock() { (*RWMutex)(r).RUnlock() }

// Held reports the model state of the lock (for structural checks by the harness)
//
//go:norace
func (m *RWMutex) Held() (writer bool, readers int) { return m.writer, m.readers }

type WaitGroup struct {
	real sync.WaitGroup
	n    int
}

//go:norace
func (w *WaitGroup) Add(d int) {
	s := Active()
	if s == nil {
		if Aborting() {
			return
		}
		w.real.Add(d)
		return
	}
	w.n += d
	if w.n < 0 {
		panic("vsched: negative WaitGroup counter")
	}
	w.real.Add(d)
	h := s.oh(w)
	*h = mix(*h, s.running.H)
	s.running.H = mix(s.running.H, 0x77)
}

//go:norace
func (w *WaitGroup) Done() { w.Add(-1) }

//go:norace
func (w *WaitGroup) Wait() {
	s := Active()
	if s == nil {
		if Aborting() {
			return
		}
		w.real.Wait()
		return
	}
	t := s.running
	s.park(t, OpWait, w, "wg.Wait")
	t.H = mix(t.H, *s.oh(w))
	w.real.Wait()
}

// Count returns the model counter
//
//go:norace
func (w *WaitGroup) Count() int { return w.n }

// AtomicPoint is called by the atomic shim before every atomic operation
//
//go:norace
func AtomicPoint(addr interface{}, write bool) {
	s := Active()
	if s == nil {
		return
	}
	t := s.running
	s.park(t, OpPoint, nil, "atomic")
	h := s.oh(addr)
	t.H = mix(t.H, *h)
	if write {
		*h = mix(*h, t.H)
	}
}

// StatusRead / StatusWrite are what reads and updates of a stage status are rewritten to when the
// instrumenter runs with -statuspoints: a scheduling point ordered on the stage, then the real call.
func StatusRead[T any](obj interface{}, f func() T) T {
	AtomicPoint(obj, false)
	return f()
}

func StatusWrite[T any](obj interface{}, f func(T), v T) {
	AtomicPoint(obj, true)
	f(v)
}

// ---------------------------------------------------------------------------------------------
// channels and select

type selCase struct {
	dir reflect.SelectDir
	ch  reflect.Value
	val reflect.Value
}

type selOp struct {
	cases      []selCase
	hasDefault bool
	done       bool
	chosen     int
	recv       reflect.Value
	recvOK     bool
}

// SelCase is one case of a rewritten select
type SelCase struct{ c selCase }

func RecvCase(ch interface{}) SelCase {
	return SelCase{selCase{dir: reflect.SelectRecv, ch: reflect.ValueOf(ch)}}
}

func SendCase(ch interface{}, v interface{}) SelCase {
	cv := reflect.ValueOf(ch)
	var vv reflect.Value
	if v == nil {
		vv = reflect.Zero(cv.Type().Elem())
	} else {
		vv = reflect.ValueOf(v).Convert(cv.Type().Elem())
	}
	return SelCase{selCase{dir: reflect.SelectSend, ch: cv, val: vv}}
}

// try performs the select without blocking; once a case has fired the result is cached, i.e. a
// thread parked at a select takes a value the moment it is available - exactly what a goroutine
// blocked in a real select does.
//
//go:norace
func (o *selOp) try() bool {
	if o.done {
		return true
	}
	rc := make([]reflect.SelectCase, 0, len(o.cases)+1)
	for _, c := range o.cases {
		sc := reflect.SelectCase{Dir: c.dir, Chan: c.ch}
		if c.dir == reflect.SelectSend {
			sc.Send = c.val
		}
		rc = append(rc, sc)
	}
	rc = append(rc, reflect.SelectCase{Dir: reflect.SelectDefault})
	// deterministic priority: try the cases one by one in source order
	for i := range o.cases {
		two := []reflect.SelectCase{rc[i], rc[len(rc)-1]}
		idx, v, ok := reflect.Select(two)
		if idx == 0 {
			o.done, o.chosen, o.recv, o.recvOK = true, i, v, ok
			return true
		}
	}
	return false
}

// SelResult carries the value received by a rewritten select whose chosen case binds it
type SelResult struct {
	recv reflect.Value
	ok   bool
}

func NewSel() *SelResult { return &SelResult{} }

// Got returns the value the select received (the channel argument only fixes the type)
//
//go:norace
func Got[T any](r *SelResult, _ <-chan T) T {
	v, _ := Got2[T](r, nil)
	return v
}

//go:norace
func Got2[T any](r *SelResult, _ <-chan T) (T, bool) {
	var zero T
	if !r.ok || !r.recv.IsValid() {
		return zero, r.ok
	}
	return r.recv.Interface().(T), true
}

// Select is what a rewritten select statement calls. It returns the index of the chosen case or
// -1 for the default clause.
//
//go:norace
func Select(hasDefault bool, cases ...SelCase) int { return SelectR(nil, hasDefault, cases...) }

// SelectR is Select for a select statement with a case that binds the received value
//
//go:norace
func SelectR(r *SelResult, hasDefault bool, cases ...SelCase) int {
	o := &selOp{hasDefault: hasDefault}
	for _, c := range cases {
		o.cases = append(o.cases, c.c)
	}
	s := Active()
	if s == nil {
		if Aborting() {
			runtime.Goexit()
		}
		rc := make([]reflect.SelectCase, 0, len(o.cases)+1)
		for _, c := range o.cases {
			sc := reflect.SelectCase{Dir: c.dir, Chan: c.ch}
			if c.dir == reflect.SelectSend {
				sc.Send = c.val
			}
			rc = append(rc, sc)
		}
		if hasDefault {
			rc = append(rc, reflect.SelectCase{Dir: reflect.SelectDefault})
		}
		idx, v, ok := reflect.Select(rc)
		if hasDefault && idx == len(rc)-1 {
			return -1
		}
		if r != nil {
			r.recv, r.ok = v, ok
		}
		return idx
	}
	t := s.running
	if hasDefault {
		// Non-blocking channel operation: not a scheduling point of its own, it takes effect
		// atomically with the step it is part of (see DESIGN.md 2.2).
		if o.try() {
			s.touchChan(t, o.cases[o.chosen].ch)
			if r != nil {
				r.recv, r.ok = o.recv, o.recvOK
			}
			return o.chosen
		}
		return -1
	}
	s.park(t, OpSelect, o, "select")
	if !o.done && !o.try() {
		panic("vsched: select granted but no case ready")
	}
	s.touchChan(t, o.cases[o.chosen].ch)
	if r != nil {
		r.recv, r.ok = o.recv, o.recvOK
	}
	return o.chosen
}

//go:norace
func (s *Sched) touchChan(t *Thread, ch reflect.Value) {
	h := s.oh(ch.Pointer())
	t.H = mix(t.H, *h)
	*h = mix(*h, t.H)
}

// Recv is what a rewritten receive calls
//
//go:norace
func Recv[T any](ch <-chan T) T {
	v, _ := Recv2(ch)
	return v
}

// Recv2 is what a rewritten `v, ok := <-ch` calls
//
//go:norace
func Recv2[T any](ch <-chan T) (T, bool) {
	s := Active()
	if s == nil {
		if Aborting() {
			runtime.Goexit()
		}
		v, ok := <-ch
		return v, ok
	}
	o := &selOp{cases: []selCase{{dir: reflect.SelectRecv, ch: reflect.ValueOf(ch)}}}
	t := s.running
	s.park(t, OpSelect, o, "recv")
	if !o.done && !o.try() {
		panic("vsched: recv granted but not ready")
	}
	s.touchChan(t, o.cases[0].ch)
	var zero T
	if !o.recvOK {
		return zero, false
	}
	return o.recv.Interface().(T), true
}

// Send is what a rewritten send statement calls
//
//go:norace
func Send[T any](ch chan<- T, v T) {
	s := Active()
	if s == nil {
		if Aborting() {
			runtime.Goexit()
		}
		ch <- v
		return
	}
	o := &selOp{cases: []selCase{{dir: reflect.SelectSend, ch: reflect.ValueOf(ch), val: reflect.ValueOf(&v).Elem()}}}
	t := s.running
	s.park(t, OpSelect, o, "send")
	if !o.done && !o.try() {
		panic("vsched: send granted but not ready")
	}
	s.touchChan(t, o.cases[0].ch)
}

// ---------------------------------------------------------------------------------------------
// virtual clock

// Now returns the virtual time; every call advances the clock by 1ns so that no two calls return
// the same instant.
//
//go:norace
func (s *Sched) Now() time.Time {
	s.elapsed++
	return s.base.Add(time.Duration(s.elapsed))
}

// Elapsed returns the virtual time since the start of the execution without advancing it
//
//go:norace
func (s *Sched) Elapsed() time.Duration { return time.Duration(s.elapsed) }

// Base returns the virtual time origin
func (s *Sched) Base() time.Time { return s.base }

//go:norace
func (s *Sched) newTimer(d time.Duration, f func(), withChan bool) *Timer {
	s.tseq++
	tm := &Timer{s: s, seq: s.tseq, deadline: s.elapsed + int64(d), f: f}
	if withChan {
		tm.C = make(chan time.Time, 1)
	}
	if t := s.running; t != nil {
		t.nchild++
		tm.owner = fmt.Sprintf("%s/t%d", t.Name, t.nchild)
		t.H = mix(t.H, 0x71)
	} else {
		tm.owner = fmt.Sprintf("timer%d", tm.seq)
	}
	s.timers = append(s.timers, tm)
	if f != nil && s.running != nil {
		// The goroutine of an AfterFunc timer is created at registration (it becomes runnable when
		// the timer fires), so that it happens-after the registering code exactly like a real
		// time.AfterFunc callback - this matters for the race build.
		creator := s.running
		th := s.Spawn(tm.owner, "timer", f)
		th.kind = OpTimer
		th.obj = tm
		th.H = mix(th.H, uint64(tm.deadline))
		s.running = creator
		tm.th = th
	}
	return tm
}

// PendingTimers returns the timers that have neither fired nor been stopped, earliest first
//
//go:norace
func (s *Sched) PendingTimers() []*Timer {
	var res []*Timer
	for _, tm := range s.timers {
		if !tm.fired && !tm.stopped {
			res = append(res, tm)
		}
	}
	sort.SliceStable(res, func(i, j int) bool { return res[i].deadline < res[j].deadline })
	return res
}

// Sleepers returns the deadlines of threads parked in Sleep
//
//go:norace
func (s *Sched) nextSleeper() (int64, bool) {
	var best int64
	found := false
	for _, t := range s.threads {
		if !t.exited && t.kind == OpSleep && t.until > s.elapsed {
			if !found || t.until < best {
				best, found = t.until, true
			}
		}
	}
	return best, found
}

// NextDeadline returns the earliest pending deadline (timer or sleeper) after now
//
//go:norace
func (s *Sched) NextDeadline() (time.Duration, bool) {
	var best int64
	found := false
	for _, tm := range s.timers {
		if !tm.fired && !tm.stopped {
			if !found || tm.deadline < best {
				best, found = tm.deadline, true
			}
		}
	}
	if d, ok := s.nextSleeper(); ok && (!found || d < best) {
		best, found = d, true
	}
	if !found {
		return 0, false
	}
	d := best - s.elapsed
	if d < 0 {
		d = 0
	}
	return time.Duration(d), true
}

// Advance moves the virtual clock forward by d and fires every timer that is due. AfterFunc
// timers become runnable managed threads; channel timers get their tick.
//
//go:norace
func (s *Sched) Advance(d time.Duration) {
	s.elapsed += int64(d)
	s.FireDue()
}

// FireDue fires the timers whose deadline the clock has passed
//
//go:norace
func (s *Sched) FireDue() {
	due := s.PendingTimers()
	saved := s.running
	for _, tm := range due {
		if tm.deadline > s.elapsed {
			break
		}
		tm.fired = true
		if tm.f != nil {
			if tm.th == nil {
				s.running = nil // registered from outside a managed thread
				t := s.Spawn(tm.owner, "timer", tm.f)
				t.H = mix(t.H, uint64(tm.deadline))
			}
		} else if tm.C != nil {
			select {
			case tm.C <- s.base.Add(time.Duration(s.elapsed)):
			default:
			}
		}
	}
	s.running = saved
}

//go:norace
func (tm *Timer) Stop() bool {
	if tm.real != nil {
		ok := tm.real.Stop()
		if ok && tm.tracked {
			freeWG.Done()
		}
		return ok
	}
	if Aborting() {
		return false
	}
	was := !tm.fired && !tm.stopped
	tm.stopped = true
	if s := Active(); s != nil {
		s.running.H = mix(s.running.H, 0x72)
	}
	return was
}

//go:norace
func (tm *Timer) Reset(d time.Duration) bool {
	if tm.real != nil {
		return tm.real.Reset(d)
	}
	was := !tm.fired && !tm.stopped
	tm.fired, tm.stopped = false, false
	tm.deadline = tm.s.elapsed + int64(d)
	return was
}

// Deadline returns the virtual deadline of the timer relative to the time origin
func (tm *Timer) Deadline() time.Duration { return time.Duration(tm.deadline) }

// Owner names the thread that created the timer
func (tm *Timer) Owner() string { return tm.owner }

// AfterFunc is the virtual time.AfterFunc
//
//go:norace
func AfterFunc(d time.Duration, f func()) *Timer {
	s := Active()
	if s == nil {
		if Aborting() {
			return &Timer{stopped: true, s: cur}
		}
		// free-running: a real timer whose callback is tracked like a goroutine started through Go
		tm := &Timer{}
		freeWG.Add(1)
		tm.real = time.AfterFunc(freeDur(d), func() {
			defer freeWG.Done()
			f()
		})
		tm.tracked = true
		return tm
	}
	return s.newTimer(d, f, false)
}

// NewTimer is the virtual time.NewTimer
//
//go:norace
func NewTimer(d time.Duration) *Timer {
	s := Active()
	if s == nil {
		if Aborting() {
			return &Timer{stopped: true, s: cur, C: make(chan time.Time, 1)}
		}
		rt := time.NewTimer(freeDur(d))
		return &Timer{real: rt, C: chanOf(rt)}
	}
	return s.newTimer(d, nil, true)
}

func chanOf(rt *time.Timer) chan time.Time {
	// the real timer channel is receive-only; bridge it
	c := make(chan time.Time, 1)
	go func() {
		v, ok := <-rt.C
		if ok {
			c <- v
		}
	}()
	return c
}

// After is the virtual time.After
//
//go:norace
func After(d time.Duration) <-chan time.Time {
	s := Active()
	if s == nil {
		if Aborting() {
			return make(chan time.Time)
		}
		return time.After(freeDur(d))
	}
	return s.newTimer(d, nil, true).C
}

// Sleep is the virtual time.Sleep
//
//go:norace
func Sleep(d time.Duration) {
	s := Active()
	if s == nil {
		if Aborting() {
			return
		}
		time.Sleep(freeDur(d))
		return
	}
	t := s.running
	if d <= 0 {
		s.park(t, OpPoint, nil, "sleep0")
		return
	}
	t.until = s.elapsed + int64(d)
	s.park(t, OpSleep, nil, "sleep")
	t.H = mix(t.H, uint64(t.until))
}

// NowTime is the virtual time.Now
//
//go:norace
func NowTime() time.Time {
	s := cur
	if s == nil {
		return time.Now()
	}
	return s.Now()
}

// ---------------------------------------------------------------------------------------------
// Ticker on the virtual clock: every tick is a timer thread that delivers the tick (dropping it if the consumer is
// slow, like the real one) and arms the next

type Ticker struct {
	C       <-chan time.Time
	c       chan time.Time
	d       time.Duration
	tm      *Timer
	real    *time.Ticker
	stopped bool
}

func NewTicker(d time.Duration) *Ticker {
	if d <= 0 {
		panic("non-positive interval for NewTicker")
	}
	s := Active()
	if s == nil {
		if Aborting() {
			c := make(chan time.Time)
			return &Ticker{C: c, c: c, stopped: true}
		}
		rt := time.NewTicker(freeDur(d))
		return &Ticker{real: rt, C: rt.C}
	}
	tk := &Ticker{c: make(chan time.Time, 1), d: d}
	tk.C = tk.c
	tk.arm()
	return tk
}

func (tk *Ticker) arm() {
	s := Active()
	if s == nil || tk.stopped {
		return
	}
	tk.tm = s.newTimer(tk.d, func() {
		if tk.stopped {
			return
		}
		select {
		case tk.c <- NowTime():
		default:
		}
		tk.arm()
	}, false)
}

func (tk *Ticker) Stop() {
	if tk.real != nil {
		tk.real.Stop()
		return
	}
	tk.stopped = true
	if tk.tm != nil {
		tk.tm.Stop()
	}
}

func (tk *Ticker) Reset(d time.Duration) {
	if tk.real != nil {
		tk.real.Reset(freeDur(d))
		return
	}
	if tk.tm != nil {
		tk.tm.Stop()
	}
	tk.d = d
	tk.stopped = false
	tk.arm()
}

// Tick is the leaky convenience form
func Tick(d time.Duration) <-chan time.Time {
	if d <= 0 {
		return nil
	}
	return NewTicker(d).C
}
