package vsched

import (
	"fmt"
	"sort"
)

// Keys returns the keys of m in a canonical (sorted) order. Rewritten `for … range m` loops
// iterate over it, so that the checker - not Go's randomised map iteration - owns the order.
func Keys[K comparable, V any](m map[K]V) []K {
	keys := make([]K, 0, len(m))
	for k := range m {
		keys = append(keys, k)
	}
	if len(keys) < 2 {
		return keys
	}
	switch any(keys[0]).(type) {
	case string:
		sort.Slice(keys, func(i, j int) bool { return any(keys[i]).(string) < any(keys[j]).(string) })
	case int:
		sort.Slice(keys, func(i, j int) bool { return any(keys[i]).(int) < any(keys[j]).(int) })
	case [16]byte:
		sort.Slice(keys, func(i, j int) bool {
			a, b := any(keys[i]).([16]byte), any(keys[j]).([16]byte)
			return string(a[:]) < string(b[:])
		})
	default:
		strs := make(map[K]string, len(keys))
		for _, k := range keys {
			strs[k] = fmt.Sprintf("%v", k)
		}
		sort.Slice(keys, func(i, j int) bool { return strs[keys[i]] < strs[keys[j]] })
	}
	if KeyOrder != nil {
		KeyOrder(len(keys), func(i, j int) { keys[i], keys[j] = keys[j], keys[i] })
	}
	return keys
}

// KeyOrder, when set by the harness, may permute the canonical key order (used to enumerate map
// iteration orders explicitly).
var KeyOrder func(n int, swap func(i, j int))
