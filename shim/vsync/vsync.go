// Package vsync stands in for "sync" in the instrumented copies of prunner's sources.
package vsync

import (
	"sync"

	"github.com/Flowpack/prunner/zverif/vsched"
)

type (
	Mutex     = vsched.Mutex
	RWMutex   = vsched.RWMutex
	WaitGroup = vsched.WaitGroup
	Once      = sync.Once
	Cond      = sync.Cond
	Locker    = sync.Locker
	Map       = sync.Map
	Pool      = sync.Pool
)

func NewCond(l Locker) *Cond { return sync.NewCond(l) }

func OnceFunc(f func()) func() { return sync.OnceFunc(f) }
