// Package vsync stands in for "sync" in the instrumented copies of prunner's sources.
package vsync

import (
	"sync"

	"github.com/Flowpack/prunner/zverif/vsched"
)

type (
	Mutex     = vsched.Mutex
	RWMutex   = vsched.RWMutex
	WaitGroup = vsched.WaitGroup
	Cond      = sync.Cond
	Locker    = sync.Locker
	Map       = sync.Map
	Pool      = sync.Pool
)

func NewCond(l Locker) *Cond { return sync.NewCond(l) }

func OnceFunc(f func()) func() { return sync.OnceFunc(f) }

// Once is sync.Once on top of the controlled mutex: a second caller waits (as a blocked thread the checker
// sees) until the first call of f has returned, exactly like the original.
type Once struct {
	mu   vsched.Mutex
	done bool
}

func (o *Once) Do(f func()) {
	o.mu.Lock()
	defer o.mu.Unlock()
	if !o.done {
		defer func() { o.done = true }()
		f()
	}
}
