// Package vtime stands in for "time" in the instrumented copies of prunner's sources: types,
// constants and pure functions are those of the real package, the clock and the timers are
// virtual while a controlled execution is active.
package vtime

import (
	"time"

	"github.com/Flowpack/prunner/zverif/vsched"
)

type (
	Duration   = time.Duration
	Time       = time.Time
	Month      = time.Month
	Weekday    = time.Weekday
	Location   = time.Location
	ParseError = time.ParseError
	Timer      = vsched.Timer
	Ticker     = vsched.Ticker
)

const (
	Nanosecond  = time.Nanosecond
	Microsecond = time.Microsecond
	Millisecond = time.Millisecond
	Second      = time.Second
	Minute      = time.Minute
	Hour        = time.Hour

	Layout      = time.Layout
	ANSIC       = time.ANSIC
	UnixDate    = time.UnixDate
	RubyDate    = time.RubyDate
	RFC822      = time.RFC822
	RFC822Z     = time.RFC822Z
	RFC850      = time.RFC850
	RFC1123     = time.RFC1123
	RFC1123Z    = time.RFC1123Z
	RFC3339     = time.RFC3339
	RFC3339Nano = time.RFC3339Nano
	Kitchen     = time.Kitchen
	Stamp       = time.Stamp
	StampMilli  = time.StampMilli
	StampMicro  = time.StampMicro
	StampNano   = time.StampNano
	DateTime    = time.DateTime
	DateOnly    = time.DateOnly
	TimeOnly    = time.TimeOnly

	January   = time.January
	February  = time.February
	March     = time.March
	April     = time.April
	May       = time.May
	June      = time.June
	July      = time.July
	August    = time.August
	September = time.September
	October   = time.October
	November  = time.November
	December  = time.December

	Sunday    = time.Sunday
	Monday    = time.Monday
	Tuesday   = time.Tuesday
	Wednesday = time.Wednesday
	Thursday  = time.Thursday
	Friday    = time.Friday
	Saturday  = time.Saturday
)

var (
	UTC   = time.UTC
	Local = time.Local
)

func Date(year int, month Month, day, hour, min, sec, nsec int, loc *Location) Time {
	return time.Date(year, month, day, hour, min, sec, nsec, loc)
}
func Unix(sec int64, nsec int64) Time             { return time.Unix(sec, nsec) }
func UnixMilli(msec int64) Time                   { return time.UnixMilli(msec) }
func UnixMicro(usec int64) Time                   { return time.UnixMicro(usec) }
func Parse(layout, value string) (Time, error)    { return time.Parse(layout, value) }
func ParseDuration(s string) (Duration, error)    { return time.ParseDuration(s) }
func LoadLocation(name string) (*Location, error) { return time.LoadLocation(name) }
func FixedZone(name string, offset int) *Location { return time.FixedZone(name, offset) }
func ParseInLocation(l, v string, loc *Location) (Time, error) {
	return time.ParseInLocation(l, v, loc)
}

func Now() Time                             { return vsched.NowTime() }
func Since(t Time) Duration                 { return Now().Sub(t) }
func Until(t Time) Duration                 { return t.Sub(Now()) }
func Sleep(d Duration)                      { vsched.Sleep(d) }
func After(d Duration) <-chan Time          { return vsched.After(d) }
func AfterFunc(d Duration, f func()) *Timer { return vsched.AfterFunc(d, f) }
func NewTimer(d Duration) *Timer            { return vsched.NewTimer(d) }

// Tick and NewTicker are not virtualised (not used by the instrumented files today); they fall
// through to the real clock.
func Tick(d Duration) <-chan Time  { return vsched.Tick(d) }
func NewTicker(d Duration) *Ticker { return vsched.NewTicker(d) }
