// Package vatomic stands in for "sync/atomic" in the instrumented copies of prunner's sources:
// every operation is preceded by a scheduling point.
package vatomic

import (
	"sync/atomic"
	"unsafe"

	"github.com/Flowpack/prunner/zverif/vsched"
)

type (
	Bool    = atomic.Bool
	Int32   = atomic.Int32
	Int64   = atomic.Int64
	Uint32  = atomic.Uint32
	Uint64  = atomic.Uint64
	Uintptr = atomic.Uintptr
	Value   = atomic.Value
)

var _ unsafe.Pointer

func AddInt32(addr *int32, delta int32) (new int32) {
	vsched.AtomicPoint(addr, true)
	return atomic.AddInt32(addr, delta)
}

func AddInt64(addr *int64, delta int64) (new int64) {
	vsched.AtomicPoint(addr, true)
	return atomic.AddInt64(addr, delta)
}

func AddUint32(addr *uint32, delta uint32) (new uint32) {
	vsched.AtomicPoint(addr, true)
	return atomic.AddUint32(addr, delta)
}

func AddUint64(addr *uint64, delta uint64) (new uint64) {
	vsched.AtomicPoint(addr, true)
	return atomic.AddUint64(addr, delta)
}

func AddUintptr(addr *uintptr, delta uintptr) (new uintptr) {
	vsched.AtomicPoint(addr, true)
	return atomic.AddUintptr(addr, delta)
}

func AndInt32(addr *int32, mask int32) (old int32) {
	vsched.AtomicPoint(addr, true)
	return atomic.AndInt32(addr, mask)
}

func AndInt64(addr *int64, mask int64) (old int64) {
	vsched.AtomicPoint(addr, true)
	return atomic.AndInt64(addr, mask)
}

func AndUint32(addr *uint32, mask uint32) (old uint32) {
	vsched.AtomicPoint(addr, true)
	return atomic.AndUint32(addr, mask)
}

func AndUint64(addr *uint64, mask uint64) (old uint64) {
	vsched.AtomicPoint(addr, true)
	return atomic.AndUint64(addr, mask)
}

func AndUintptr(addr *uintptr, mask uintptr) (old uintptr) {
	vsched.AtomicPoint(addr, true)
	return atomic.AndUintptr(addr, mask)
}

func CompareAndSwapInt32(addr *int32, old, new int32) (swapped bool) {
	vsched.AtomicPoint(addr, true)
	return atomic.CompareAndSwapInt32(addr, old, new)
}

func CompareAndSwapInt64(addr *int64, old, new int64) (swapped bool) {
	vsched.AtomicPoint(addr, true)
	return atomic.CompareAndSwapInt64(addr, old, new)
}

func CompareAndSwapPointer(addr *unsafe.Pointer, old, new unsafe.Pointer) (swapped bool) {
	vsched.AtomicPoint(addr, true)
	return atomic.CompareAndSwapPointer(addr, old, new)
}

func CompareAndSwapUint32(addr *uint32, old, new uint32) (swapped bool) {
	vsched.AtomicPoint(addr, true)
	return atomic.CompareAndSwapUint32(addr, old, new)
}

func CompareAndSwapUint64(addr *uint64, old, new uint64) (swapped bool) {
	vsched.AtomicPoint(addr, true)
	return atomic.CompareAndSwapUint64(addr, old, new)
}

func CompareAndSwapUintptr(addr *uintptr, old, new uintptr) (swapped bool) {
	vsched.AtomicPoint(addr, true)
	return atomic.CompareAndSwapUintptr(addr, old, new)
}

func LoadInt32(addr *int32) (val int32) {
	vsched.AtomicPoint(addr, false)
	return atomic.LoadInt32(addr)
}

func LoadInt64(addr *int64) (val int64) {
	vsched.AtomicPoint(addr, false)
	return atomic.LoadInt64(addr)
}

func LoadPointer(addr *unsafe.Pointer) (val unsafe.Pointer) {
	vsched.AtomicPoint(addr, false)
	return atomic.LoadPointer(addr)
}

func LoadUint32(addr *uint32) (val uint32) {
	vsched.AtomicPoint(addr, false)
	return atomic.LoadUint32(addr)
}

func LoadUint64(addr *uint64) (val uint64) {
	vsched.AtomicPoint(addr, false)
	return atomic.LoadUint64(addr)
}

func LoadUintptr(addr *uintptr) (val uintptr) {
	vsched.AtomicPoint(addr, false)
	return atomic.LoadUintptr(addr)
}

func OrInt32(addr *int32, mask int32) (old int32) {
	vsched.AtomicPoint(addr, true)
	return atomic.OrInt32(addr, mask)
}

func OrInt64(addr *int64, mask int64) (old int64) {
	vsched.AtomicPoint(addr, true)
	return atomic.OrInt64(addr, mask)
}

func OrUint32(addr *uint32, mask uint32) (old uint32) {
	vsched.AtomicPoint(addr, true)
	return atomic.OrUint32(addr, mask)
}

func OrUint64(addr *uint64, mask uint64) (old uint64) {
	vsched.AtomicPoint(addr, true)
	return atomic.OrUint64(addr, mask)
}

func OrUintptr(addr *uintptr, mask uintptr) (old uintptr) {
	vsched.AtomicPoint(addr, true)
	return atomic.OrUintptr(addr, mask)
}

func StoreInt32(addr *int32, val int32) {
	vsched.AtomicPoint(addr, true)
	atomic.StoreInt32(addr, val)
}

func StoreInt64(addr *int64, val int64) {
	vsched.AtomicPoint(addr, true)
	atomic.StoreInt64(addr, val)
}

func StorePointer(addr *unsafe.Pointer, val unsafe.Pointer) {
	vsched.AtomicPoint(addr, true)
	atomic.StorePointer(addr, val)
}

func StoreUint32(addr *uint32, val uint32) {
	vsched.AtomicPoint(addr, true)
	atomic.StoreUint32(addr, val)
}

func StoreUint64(addr *uint64, val uint64) {
	vsched.AtomicPoint(addr, true)
	atomic.StoreUint64(addr, val)
}

func StoreUintptr(addr *uintptr, val uintptr) {
	vsched.AtomicPoint(addr, true)
	atomic.StoreUintptr(addr, val)
}

func SwapInt32(addr *int32, new int32) (old int32) {
	vsched.AtomicPoint(addr, true)
	return atomic.SwapInt32(addr, new)
}

func SwapInt64(addr *int64, new int64) (old int64) {
	vsched.AtomicPoint(addr, true)
	return atomic.SwapInt64(addr, new)
}

func SwapPointer(addr *unsafe.Pointer, new unsafe.Pointer) (old unsafe.Pointer) {
	vsched.AtomicPoint(addr, true)
	return atomic.SwapPointer(addr, new)
}

func SwapUint32(addr *uint32, new uint32) (old uint32) {
	vsched.AtomicPoint(addr, true)
	return atomic.SwapUint32(addr, new)
}

func SwapUint64(addr *uint64, new uint64) (old uint64) {
	vsched.AtomicPoint(addr, true)
	return atomic.SwapUint64(addr, new)
}

func SwapUintptr(addr *uintptr, new uintptr) (old uintptr) {
	vsched.AtomicPoint(addr, true)
	return atomic.SwapUintptr(addr, new)
}
