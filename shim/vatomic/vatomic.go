// Package vatomic stands in for "sync/atomic" in the instrumented copies of prunner's sources:
// every operation is preceded by a scheduling point.
package vatomic

import (
	"sync/atomic"
	"unsafe"

	"github.com/Flowpack/prunner/zverif/vsched"
)

type Value = atomic.Value

// typed atomics: the real type inside (the race detector sees the same operations), a scheduling point before each
type Bool struct{ v atomic.Bool }

func (x *Bool) Load() bool         { vsched.AtomicPoint(&x.v, false); return x.v.Load() }
func (x *Bool) Store(val bool)     { vsched.AtomicPoint(&x.v, true); x.v.Store(val) }
func (x *Bool) Swap(new bool) bool { vsched.AtomicPoint(&x.v, true); return x.v.Swap(new) }
func (x *Bool) CompareAndSwap(old, new bool) bool {
	vsched.AtomicPoint(&x.v, true)
	return x.v.CompareAndSwap(old, new)
}

type Int32 struct{ v atomic.Int32 }

func (x *Int32) Load() int32          { vsched.AtomicPoint(&x.v, false); return x.v.Load() }
func (x *Int32) Store(val int32)      { vsched.AtomicPoint(&x.v, true); x.v.Store(val) }
func (x *Int32) Swap(new int32) int32 { vsched.AtomicPoint(&x.v, true); return x.v.Swap(new) }
func (x *Int32) Add(d int32) int32    { vsched.AtomicPoint(&x.v, true); return x.v.Add(d) }
func (x *Int32) CompareAndSwap(old, new int32) bool {
	vsched.AtomicPoint(&x.v, true)
	return x.v.CompareAndSwap(old, new)
}

type Int64 struct{ v atomic.Int64 }

func (x *Int64) Load() int64          { vsched.AtomicPoint(&x.v, false); return x.v.Load() }
func (x *Int64) Store(val int64)      { vsched.AtomicPoint(&x.v, true); x.v.Store(val) }
func (x *Int64) Swap(new int64) int64 { vsched.AtomicPoint(&x.v, true); return x.v.Swap(new) }
func (x *Int64) Add(d int64) int64    { vsched.AtomicPoint(&x.v, true); return x.v.Add(d) }
func (x *Int64) CompareAndSwap(old, new int64) bool {
	vsched.AtomicPoint(&x.v, true)
	return x.v.CompareAndSwap(old, new)
}

type Uint32 struct{ v atomic.Uint32 }

func (x *Uint32) Load() uint32           { vsched.AtomicPoint(&x.v, false); return x.v.Load() }
func (x *Uint32) Store(val uint32)       { vsched.AtomicPoint(&x.v, true); x.v.Store(val) }
func (x *Uint32) Swap(new uint32) uint32 { vsched.AtomicPoint(&x.v, true); return x.v.Swap(new) }
func (x *Uint32) Add(d uint32) uint32    { vsched.AtomicPoint(&x.v, true); return x.v.Add(d) }
func (x *Uint32) CompareAndSwap(old, new uint32) bool {
	vsched.AtomicPoint(&x.v, true)
	return x.v.CompareAndSwap(old, new)
}

type Uint64 struct{ v atomic.Uint64 }

func (x *Uint64) Load() uint64           { vsched.AtomicPoint(&x.v, false); return x.v.Load() }
func (x *Uint64) Store(val uint64)       { vsched.AtomicPoint(&x.v, true); x.v.Store(val) }
func (x *Uint64) Swap(new uint64) uint64 { vsched.AtomicPoint(&x.v, true); return x.v.Swap(new) }
func (x *Uint64) Add(d uint64) uint64    { vsched.AtomicPoint(&x.v, true); return x.v.Add(d) }
func (x *Uint64) CompareAndSwap(old, new uint64) bool {
	vsched.AtomicPoint(&x.v, true)
	return x.v.CompareAndSwap(old, new)
}

type Uintptr = atomic.Uintptr

type Pointer[T any] struct{ v atomic.Pointer[T] }

func (x *Pointer[T]) Load() *T       { vsched.AtomicPoint(&x.v, false); return x.v.Load() }
func (x *Pointer[T]) Store(val *T)   { vsched.AtomicPoint(&x.v, true); x.v.Store(val) }
func (x *Pointer[T]) Swap(new *T) *T { vsched.AtomicPoint(&x.v, true); return x.v.Swap(new) }
func (x *Pointer[T]) CompareAndSwap(old, new *T) bool {
	vsched.AtomicPoint(&x.v, true)
	return x.v.CompareAndSwap(old, new)
}

var _ unsafe.Pointer

func AddInt32(addr *int32, delta int32) (new int32) {
	vsched.AtomicPoint(addr, true)
	return atomic.AddInt32(addr, delta)
}

func AddInt64(addr *int64, delta int64) (new int64) {
	vsched.AtomicPoint(addr, true)
	return atomic.AddInt64(addr, delta)
}

func AddUint32(addr *uint32, delta uint32) (new uint32) {
	vsched.AtomicPoint(addr, true)
	return atomic.AddUint32(addr, delta)
}

func AddUint64(addr *uint64, delta uint64) (new uint64) {
	vsched.AtomicPoint(addr, true)
	return atomic.AddUint64(addr, delta)
}

func AddUintptr(addr *uintptr, delta uintptr) (new uintptr) {
	vsched.AtomicPoint(addr, true)
	return atomic.AddUintptr(addr, delta)
}

func AndInt32(addr *int32, mask int32) (old int32) {
	vsched.AtomicPoint(addr, true)
	return atomic.AndInt32(addr, mask)
}

func AndInt64(addr *int64, mask int64) (old int64) {
	vsched.AtomicPoint(addr, true)
	return atomic.AndInt64(addr, mask)
}

func AndUint32(addr *uint32, mask uint32) (old uint32) {
	vsched.AtomicPoint(addr, true)
	return atomic.AndUint32(addr, mask)
}

func AndUint64(addr *uint64, mask uint64) (old uint64) {
	vsched.AtomicPoint(addr, true)
	return atomic.AndUint64(addr, mask)
}

func AndUintptr(addr *uintptr, mask uintptr) (old uintptr) {
	vsched.AtomicPoint(addr, true)
	return atomic.AndUintptr(addr, mask)
}

func CompareAndSwapInt32(addr *int32, old, new int32) (swapped bool) {
	vsched.AtomicPoint(addr, true)
	return atomic.CompareAndSwapInt32(addr, old, new)
}

func CompareAndSwapInt64(addr *int64, old, new int64) (swapped bool) {
	vsched.AtomicPoint(addr, true)
	return atomic.CompareAndSwapInt64(addr, old, new)
}

func CompareAndSwapPointer(addr *unsafe.Pointer, old, new unsafe.Pointer) (swapped bool) {
	vsched.AtomicPoint(addr, true)
	return atomic.CompareAndSwapPointer(addr, old, new)
}

func CompareAndSwapUint32(addr *uint32, old, new uint32) (swapped bool) {
	vsched.AtomicPoint(addr, true)
	return atomic.CompareAndSwapUint32(addr, old, new)
}

func CompareAndSwapUint64(addr *uint64, old, new uint64) (swapped bool) {
	vsched.AtomicPoint(addr, true)
	return atomic.CompareAndSwapUint64(addr, old, new)
}

func CompareAndSwapUintptr(addr *uintptr, old, new uintptr) (swapped bool) {
	vsched.AtomicPoint(addr, true)
	return atomic.CompareAndSwapUintptr(addr, old, new)
}

func LoadInt32(addr *int32) (val int32) {
	vsched.AtomicPoint(addr, false)
	return atomic.LoadInt32(addr)
}

func LoadInt64(addr *int64) (val int64) {
	vsched.AtomicPoint(addr, false)
	return atomic.LoadInt64(addr)
}

func LoadPointer(addr *unsafe.Pointer) (val unsafe.Pointer) {
	vsched.AtomicPoint(addr, false)
	return atomic.LoadPointer(addr)
}

func LoadUint32(addr *uint32) (val uint32) {
	vsched.AtomicPoint(addr, false)
	return atomic.LoadUint32(addr)
}

func LoadUint64(addr *uint64) (val uint64) {
	vsched.AtomicPoint(addr, false)
	return atomic.LoadUint64(addr)
}

func LoadUintptr(addr *uintptr) (val uintptr) {
	vsched.AtomicPoint(addr, false)
	return atomic.LoadUintptr(addr)
}

func OrInt32(addr *int32, mask int32) (old int32) {
	vsched.AtomicPoint(addr, true)
	return atomic.OrInt32(addr, mask)
}

func OrInt64(addr *int64, mask int64) (old int64) {
	vsched.AtomicPoint(addr, true)
	return atomic.OrInt64(addr, mask)
}

func OrUint32(addr *uint32, mask uint32) (old uint32) {
	vsched.AtomicPoint(addr, true)
	return atomic.OrUint32(addr, mask)
}

func OrUint64(addr *uint64, mask uint64) (old uint64) {
	vsched.AtomicPoint(addr, true)
	return atomic.OrUint64(addr, mask)
}

func OrUintptr(addr *uintptr, mask uintptr) (old uintptr) {
	vsched.AtomicPoint(addr, true)
	return atomic.OrUintptr(addr, mask)
}

func StoreInt32(addr *int32, val int32) {
	vsched.AtomicPoint(addr, true)
	atomic.StoreInt32(addr, val)
}

func StoreInt64(addr *int64, val int64) {
	vsched.AtomicPoint(addr, true)
	atomic.StoreInt64(addr, val)
}

func StorePointer(addr *unsafe.Pointer, val unsafe.Pointer) {
	vsched.AtomicPoint(addr, true)
	atomic.StorePointer(addr, val)
}

func StoreUint32(addr *uint32, val uint32) {
	vsched.AtomicPoint(addr, true)
	atomic.StoreUint32(addr, val)
}

func StoreUint64(addr *uint64, val uint64) {
	vsched.AtomicPoint(addr, true)
	atomic.StoreUint64(addr, val)
}

func StoreUintptr(addr *uintptr, val uintptr) {
	vsched.AtomicPoint(addr, true)
	atomic.StoreUintptr(addr, val)
}

func SwapInt32(addr *int32, new int32) (old int32) {
	vsched.AtomicPoint(addr, true)
	return atomic.SwapInt32(addr, new)
}

func SwapInt64(addr *int64, new int64) (old int64) {
	vsched.AtomicPoint(addr, true)
	return atomic.SwapInt64(addr, new)
}

func SwapPointer(addr *unsafe.Pointer, new unsafe.Pointer) (old unsafe.Pointer) {
	vsched.AtomicPoint(addr, true)
	return atomic.SwapPointer(addr, new)
}

func SwapUint32(addr *uint32, new uint32) (old uint32) {
	vsched.AtomicPoint(addr, true)
	return atomic.SwapUint32(addr, new)
}

func SwapUint64(addr *uint64, new uint64) (old uint64) {
	vsched.AtomicPoint(addr, true)
	return atomic.SwapUint64(addr, new)
}

func SwapUintptr(addr *uintptr, new uintptr) (old uintptr) {
	vsched.AtomicPoint(addr, true)
	return atomic.SwapUintptr(addr, new)
}
